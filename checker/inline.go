package main

// Normalisation before analysis: calls to *new* helper functions are inlined at source level.
//
// The rules are written against the function decomposition of the reviewed tree
// (rules/baseline_functions.json names its functions). Extracting a helper out of one of
// those functions - the most common maintenance edit - moves code out of sight of rules
// that look at one function at a time. Before the analysed program is loaded, every call
// to a package function that is not one of the baseline functions, is not recursive and
// is not used as a value is replaced by its body, so the rules see the code where it
// executes. The transformation is semantics-preserving (arguments are evaluated once, in
// order, into temporaries; `return` becomes an assignment to result temporaries and a
// jump to the end of the inlined block) and conservative: whenever a precondition is not
// met the call is simply left in place. Helpers whose calls were all inlined are removed.
// The transformed sources are handed to the loader as an overlay; nothing is written to
// the repository.

import (
	"bytes"
	"encoding/json"
	"fmt"
	"go/ast"
	"go/format"
	"go/parser"
	"go/token"
	"go/types"
	"os"
	"path/filepath"
	"reflect"
	"sort"
	"strings"

	"golang.org/x/tools/go/ast/astutil"
	"golang.org/x/tools/go/packages"
)

type inlineReport struct {
	Inlined   []string `json:"inlined_calls"`   // "caller <- callee"
	Removed   []string `json:"removed_helpers"` // helper declarations dropped after inlining
	Kept      []string `json:"kept_calls"`      // "caller -> callee: reason" for new helpers left in place
	NewFuncs  []string `json:"functions_not_in_the_baseline"`
	Renamed   []string `json:"baseline_functions_renamed"`
	Rewrites  []string `json:"source_rewrites"`
	Unchanged bool     `json:"sources_unchanged"`
}

func baselineFunctions() (map[string]bool, error) {
	b, err := os.ReadFile(filepath.Join(rulesDir, "baseline_functions.json"))
	if err != nil {
		return nil, err
	}
	var doc struct {
		Functions []string `json:"functions"`
	}
	if err := json.Unmarshal(b, &doc); err != nil {
		return nil, err
	}
	m := map[string]bool{}
	for _, f := range doc.Functions {
		m[f] = true
	}
	return m, nil
}

func declKey(fd *ast.FuncDecl) string {
	if fd.Recv != nil && len(fd.Recv.List) == 1 {
		t := fd.Recv.List[0].Type
		if s, ok := t.(*ast.StarExpr); ok {
			t = s.X
		}
		if id, ok := t.(*ast.Ident); ok {
			return id.Name + "." + fd.Name.Name
		}
	}
	return fd.Name.Name
}

type inliner struct {
	pkg     *packages.Package
	info    *types.Info
	fset    *token.FileSet
	decls   map[*types.Func]*ast.FuncDecl
	fileOf  map[*ast.FuncDecl]*ast.File
	cand    map[*types.Func]bool
	why     map[*types.Func]string
	n       int
	rep     *inlineReport
	changed map[*ast.File]bool
	curFile *ast.File
	curFunc string
	curDecl *ast.FuncDecl
	// local closures bound once to a variable and only ever called (`fail := func(...) {...}`):
	// inlined like helper functions, under a stand-in function object
	litVar    map[*types.Var]*types.Func
	litAssign map[*types.Func]*ast.AssignStmt
	litUses   map[*types.Func]int
	litOwner  map[*types.Func]*ast.FuncDecl
	litRange  map[*types.Func][2]token.Pos
	// imports that the bodies inlined into a function need (the copies carry no type
	// information, so they are remembered here for the day the function is itself inlined)
	extraImports map[*ast.FuncDecl]map[string]string
	inlinedN     map[*types.Func]int
	keptN        map[*types.Func]int
}

// normaliseSources returns an overlay (file path -> transformed content) for the files of
// ./src that changed, and a report. A nil overlay means nothing was inlined.
func normaliseSources(repoDir string, env []string, buildFlags []string) (map[string][]byte, *inlineReport, error) {
	rep := &inlineReport{}
	base, err := baselineFunctions()
	if err != nil {
		return nil, rep, fmt.Errorf("baseline function list: %w", err)
	}
	cfg := &packages.Config{
		Mode:       packages.NeedName | packages.NeedFiles | packages.NeedCompiledGoFiles | packages.NeedImports | packages.NeedTypes | packages.NeedTypesSizes | packages.NeedSyntax | packages.NeedTypesInfo | packages.NeedDeps,
		Dir:        repoDir,
		Env:        env,
		BuildFlags: buildFlags,
	}
	pkgs, err := packages.Load(cfg, "./src")
	if err != nil {
		return nil, rep, err
	}
	if len(pkgs) != 1 || len(pkgs[0].Errors) > 0 {
		// leave error reporting to the main load
		rep.Unchanged = true
		return nil, rep, nil
	}
	// rounds of (table / library-idiom rewrites, inlining): an inlined helper can leave a loop
	// over its (constant) variadic argument behind, which the next round unrolls
	orig := pkgs[0]
	cur := orig
	var overlay map[string][]byte
	for round := 0; round < 6; round++ {
		ov, inlined, err := normaliseRound(repoDir, orig, cur, overlay, base, rep, round)
		if err != nil {
			return nil, rep, err
		}
		if ov != nil {
			overlay = ov
		}
		if !inlined {
			break
		}
		np, err := recheck(orig, overlay)
		if err != nil {
			if dumpNormalised != "" {
				for path, src := range overlay {
					_ = os.MkdirAll(dumpNormalised, 0o755)
					_ = os.WriteFile(dumpNormalised+"/"+filepath.Base(path)+".failed", src, 0o644)
				}
			}
			return nil, rep, fmt.Errorf("the normalised package does not type-check: %w", err)
		}
		cur = np
	}
	sort.Strings(rep.Inlined)
	sort.Strings(rep.Removed)
	sort.Strings(rep.Kept)
	rep.Unchanged = overlay == nil
	return overlay, rep, nil
}

// normaliseRound: one round on the package `cur` (the original, or the re-checked result of
// the previous round, whose changed files are in `overlay`). It returns the accumulated
// overlay (nil when this round changed nothing) and whether the inliner changed something.
func normaliseRound(repoDir string, orig, cur *packages.Package, overlay map[string][]byte, base map[string]bool, rep *inlineReport, round int) (map[string][]byte, bool, error) {
	{
		// renamed baseline functions are recognised on the round's input already, so that the
		// pre-passes know which functions are new helpers
		tmp := &inliner{pkg: cur, info: cur.TypesInfo, decls: map[*types.Func]*ast.FuncDecl{}, rep: &inlineReport{}}
		for _, f := range cur.Syntax {
			for _, d := range f.Decls {
				if fd, ok := d.(*ast.FuncDecl); ok && fd.Body != nil {
					if obj, ok := cur.TypesInfo.Defs[fd.Name].(*types.Func); ok {
						tmp.decls[obj] = fd
					}
				}
			}
		}
		for k := range renamedBaseline(tmp, base) {
			base[k] = true
		}
	}
	pkg, preOverlay := preNormalise(orig, cur, overlay, rep, round, base)
	in := &inliner{pkg: pkg, info: pkg.TypesInfo, fset: pkg.Fset, n: round * 100000, decls: map[*types.Func]*ast.FuncDecl{}, fileOf: map[*ast.FuncDecl]*ast.File{},
		cand: map[*types.Func]bool{}, why: map[*types.Func]string{}, rep: rep, changed: map[*ast.File]bool{}, inlinedN: map[*types.Func]int{}, keptN: map[*types.Func]int{}}
	for _, f := range pkg.Syntax {
		for _, d := range f.Decls {
			if fd, ok := d.(*ast.FuncDecl); ok && fd.Body != nil {
				if obj, ok := pkg.TypesInfo.Defs[fd.Name].(*types.Func); ok {
					in.decls[obj] = fd
					in.fileOf[fd] = f
				}
			}
		}
	}
	// identifiers mentioned by the test files: such functions are part of the suite's API
	testNames := map[string]bool{}
	if ents, err := os.ReadDir(filepath.Join(repoDir, "src")); err == nil {
		for _, e := range ents {
			if strings.HasSuffix(e.Name(), "_test.go") {
				if tf, err := parser.ParseFile(token.NewFileSet(), filepath.Join(repoDir, "src", e.Name()), nil, 0); err == nil {
					ast.Inspect(tf, func(n ast.Node) bool {
						if id, ok := n.(*ast.Ident); ok {
							testNames[id.Name] = true
						}
						return true
					})
				}
			}
		}
	}
	if dumpShapes {
		shapes := map[string]any{}
		for obj, fd := range in.decls {
			var ws []string
			for w := range funcWords(fd) {
				ws = append(ws, w)
			}
			sort.Strings(ws)
			shapes[declKey(fd)] = map[string]any{"sig": funcSigString(obj), "words": ws}
		}
		b, _ := json.MarshalIndent(shapes, " ", " ")
		fmt.Println(string(b))
		os.Exit(0)
	}
	// renamed baseline functions: a baseline name that no longer exists is matched with the new
	// function of identical signature whose body resembles it most (callees and string
	// constants); the match keeps its place in the decomposition (it is not inlined).
	for k := range renamedBaseline(in, base) {
		base[k] = true
	}
	// candidates: not in the baseline, not named by tests, no defer/recover/go/labels, not generic
	for obj, fd := range in.decls {
		key := declKey(fd)
		if base[key] {
			continue
		}
		rep.NewFuncs = append(rep.NewFuncs, key)
		switch {
		case fd.Name.Name == "main" || fd.Name.Name == "init":
			in.why[obj] = "entry point"
		case testNames[fd.Name.Name] && (fd.Recv == nil || testNames[strings.SplitN(key, ".", 2)[0]]):
			// (a method is part of the suite's vocabulary only if its receiver type is: `Write`
			// or `Read` on a type no test mentions is not the `Write` the tests call)
			in.why[obj] = "named by a test file"
		case fd.Type.TypeParams != nil && len(fd.Type.TypeParams.List) > 0:
			in.why[obj] = "generic"
		case pureStringPredicateDecl(fd, in.info):
			// a byte loop over its string argument with a yes / no answer: judged as a function
			// (purepred.go), not as a loop inside its caller
			in.why[obj] = "a pure predicate on a string (kept as a function)"
		default:
			if r := unsuitableBody(fd, in.info); r != "" {
				in.why[obj] = r
			} else {
				in.cand[obj] = true
			}
		}
	}
	in.registerLocalClosures()
	sort.Strings(rep.NewFuncs)
	if len(in.cand) == 0 {
		return preOverlay, false, nil
	}
	// call graph among package functions; uses as values
	calls := map[*types.Func]map[*types.Func]bool{}
	for obj, fd := range in.decls {
		calls[obj] = map[*types.Func]bool{}
		callFuns := map[*ast.Ident]bool{}
		ast.Inspect(fd.Body, func(n ast.Node) bool {
			if ce, ok := n.(*ast.CallExpr); ok {
				if id := calleeIdent(ce); id != nil {
					callFuns[id] = true
					if g, ok := in.info.Uses[id].(*types.Func); ok && in.decls[g] != nil {
						calls[obj][g] = true
					}
					if v, ok := in.info.Uses[id].(*types.Var); ok {
						if g := in.litVar[v]; g != nil && g != obj {
							calls[obj][g] = true
						}
					}
				}
			}
			return true
		})
		ast.Inspect(fd.Body, func(n ast.Node) bool {
			if id, ok := n.(*ast.Ident); ok && !callFuns[id] {
				if g, ok := in.info.Uses[id].(*types.Func); ok && in.cand[g] {
					delete(in.cand, g)
					in.why[g] = "used as a value"
				}
			}
			return true
		})
	}
	// package-level initialisers using a candidate as a value or calling it: leave those alone
	for _, f := range pkg.Syntax {
		for _, d := range f.Decls {
			if gd, ok := d.(*ast.GenDecl); ok {
				ast.Inspect(gd, func(n ast.Node) bool {
					if id, ok := n.(*ast.Ident); ok {
						if g, ok := in.info.Uses[id].(*types.Func); ok && in.cand[g] {
							// calls inside package-level initialiser closures are handled (FuncLit bodies), plain uses are not
							_ = g
						}
					}
					return true
				})
			}
		}
	}
	if os.Getenv("NORM_DEBUG") != "" {
		for obj, fd := range in.decls {
			if !base[declKey(fd)] {
				fmt.Fprintf(os.Stderr, "round %d: %s cand=%v why=%q\n", round, declKey(fd), in.cand[obj], in.why[obj])
			}
		}
	}
	// recursion: a candidate on a cycle is not inlined
	var reach func(from, target *types.Func, seen map[*types.Func]bool) bool
	reach = func(from, target *types.Func, seen map[*types.Func]bool) bool {
		if seen[from] {
			return false
		}
		seen[from] = true
		for g := range calls[from] {
			if g == target {
				return true
			}
			// only cycles made of candidates alone prevent inlining: a cycle through a function
			// that stays in place (baseline) ends there - the helper is inlined into it once
			if in.cand[g] && reach(g, target, seen) {
				return true
			}
		}
		return false
	}
	var candList []*types.Func
	for obj := range in.cand {
		candList = append(candList, obj)
	}
	sort.Slice(candList, func(i, j int) bool { return candList[i].FullName() < candList[j].FullName() })
	for _, obj := range candList {
		if reach(obj, obj, map[*types.Func]bool{}) {
			delete(in.cand, obj)
			in.why[obj] = "recursive"
		}
	}
	// process bottom-up: candidates first, callees before callers (the candidate-only call
	// graph is acyclic now), then the functions that stay in place
	done := map[*types.Func]bool{}
	var order []*types.Func
	var visit func(f *types.Func)
	visit = func(f *types.Func) {
		if done[f] {
			return
		}
		done[f] = true
		var gs []*types.Func
		for g := range calls[f] {
			if in.cand[g] {
				gs = append(gs, g)
			}
		}
		sort.Slice(gs, func(i, j int) bool { return gs[i].FullName() < gs[j].FullName() })
		for _, g := range gs {
			visit(g)
		}
		order = append(order, f)
	}
	for _, f := range candList {
		if in.cand[f] {
			visit(f)
		}
	}
	var all []*types.Func
	for obj := range in.decls {
		all = append(all, obj)
	}
	sort.Slice(all, func(i, j int) bool { return all[i].FullName() < all[j].FullName() })
	for _, f := range all {
		if !in.cand[f] {
			order = append(order, f)
		}
	}
	for _, f := range order {
		fd := in.decls[f]
		in.curFile = in.fileOf[fd]
		in.curFunc = declKey(fd)
		in.curDecl = fd
		in.processBlock(fd.Body, fd)
	}
	// bindings of closures all of whose calls were inlined are dropped (the variable would be unused)
	drop := map[ast.Stmt]bool{}
	for g, as := range in.litAssign {
		if in.inlinedN[g] > 0 && in.inlinedN[g] == in.litUses[g] && in.keptN[g] == 0 {
			drop[as] = true
			rep.Removed = append(rep.Removed, "closure "+g.Name())
		}
	}
	if len(drop) > 0 {
		filter := func(list []ast.Stmt) []ast.Stmt {
			var out []ast.Stmt
			for _, st := range list {
				if !drop[st] {
					out = append(out, st)
				}
			}
			return out
		}
		for _, f := range pkg.Syntax {
			ast.Inspect(f, func(n ast.Node) bool {
				switch x := n.(type) {
				case *ast.BlockStmt:
					x.List = filter(x.List)
				case *ast.CaseClause:
					x.Body = filter(x.Body)
				case *ast.CommClause:
					x.Body = filter(x.Body)
				}
				return true
			})
		}
	}
	// function literals in package-level variable initialisers (the table builders, cobra commands)
	for _, f := range pkg.Syntax {
		in.curFile = f
		for _, d := range f.Decls {
			if gd, ok := d.(*ast.GenDecl); ok && gd.Tok == token.VAR {
				ast.Inspect(gd, func(n ast.Node) bool {
					if fl, ok := n.(*ast.FuncLit); ok {
						in.curFunc = "package-level function literal"
						in.curDecl = nil
						in.processBlock(fl.Body, nil)
						return false
					}
					return true
				})
			}
		}
	}
	// remove helpers whose calls were all inlined
	for obj, n := range in.inlinedN {
		if in.litAssign[obj] != nil {
			continue
		}
		if n > 0 && in.keptN[obj] == 0 && in.cand[obj] {
			fd := in.decls[obj]
			f := in.fileOf[fd]
			// a call that was never offered to the inliner (not hoistable, or inside a copied
			// body, which carries no type information) still needs the declaration
			stillNamed := false
			for _, g := range pkg.Syntax {
				ast.Inspect(g, func(m ast.Node) bool {
					if id, ok := m.(*ast.Ident); ok && id.Name == fd.Name.Name && id != fd.Name {
						stillNamed = true
					}
					return !stillNamed
				})
			}
			if stillNamed {
				continue
			}
			for i, d := range f.Decls {
				if d == ast.Decl(fd) {
					f.Decls = append(f.Decls[:i:i], f.Decls[i+1:]...)
					in.changed[f] = true
					rep.Removed = append(rep.Removed, declKey(fd))
					break
				}
			}
		}
	}
	for obj, r := range in.why {
		if fd := in.decls[obj]; fd != nil && !base[declKey(fd)] {
			rep.Kept = append(rep.Kept, fmt.Sprintf("%s is not inlined anywhere: %s", declKey(fd), r))
		}
	}
	if len(in.changed) == 0 {
		return preOverlay, false, nil
	}
	out := map[string][]byte{}
	for k, v := range overlay {
		out[k] = v
	}
	for k, v := range preOverlay {
		out[k] = v
	}
	for f := range in.changed {
		src, err := renderFile(in.fset, f, pkg)
		if err != nil {
			return nil, false, err
		}
		out[in.fset.File(f.Pos()).Name()] = src
	}
	return out, true, nil
}

// pruneUnusedImports re-parses src and removes imports no identifier refers to (a removed
// helper may have been the only user). names maps import path -> package name.
func pruneUnusedImports(src []byte, names map[string]string) []byte {
	fset := token.NewFileSet()
	f, err := parser.ParseFile(fset, "x.go", src, parser.ParseComments)
	if err != nil {
		return src
	}
	used := map[string]bool{}
	ast.Inspect(f, func(n ast.Node) bool {
		if se, ok := n.(*ast.SelectorExpr); ok {
			if id, ok := se.X.(*ast.Ident); ok {
				used[id.Name] = true
			}
		}
		return true
	})
	changed := false
	for _, imp := range append([]*ast.ImportSpec{}, f.Imports...) {
		path := strings.Trim(imp.Path.Value, "\"")
		name := names[path]
		if imp.Name != nil {
			name = imp.Name.Name
			if name == "_" || name == "." {
				continue
			}
		}
		if name == "" || used[name] {
			continue
		}
		if imp.Name != nil {
			astutil.DeleteNamedImport(fset, f, imp.Name.Name, path)
		} else {
			astutil.DeleteImport(fset, f, path)
		}
		changed = true
	}
	if !changed {
		return src
	}
	var buf bytes.Buffer
	if err := format.Node(&buf, fset, f); err != nil {
		return src
	}
	return buf.Bytes()
}

func calleeIdent(ce *ast.CallExpr) *ast.Ident {
	switch f := ce.Fun.(type) {
	case *ast.Ident:
		return f
	case *ast.SelectorExpr:
		return f.Sel
	case *ast.ParenExpr:
		if id, ok := f.X.(*ast.Ident); ok {
			return id
		}
	}
	return nil
}

func unsuitableBody(fd *ast.FuncDecl, info *types.Info) string {
	reason := ""
	// recover() inside the literal of a top-level `defer func() { ... }()`: such a helper can be
	// inlined into a `return helper(...)` (the defer is then registered in the caller, which
	// returns at once - see expand)
	recoverOK := map[*ast.Ident]bool{}
	for _, st := range fd.Body.List {
		if ds, ok := st.(*ast.DeferStmt); ok {
			if fl, ok := ds.Call.Fun.(*ast.FuncLit); ok && len(ds.Call.Args) == 0 {
				ast.Inspect(fl.Body, func(n ast.Node) bool {
					if ce, ok := n.(*ast.CallExpr); ok {
						if id, ok := ce.Fun.(*ast.Ident); ok && id.Name == "recover" {
							recoverOK[id] = true
						}
					}
					return true
				})
			}
		}
	}
	var walk func(n ast.Node, inLit bool)
	walk = func(n ast.Node, inLit bool) {
		ast.Inspect(n, func(m ast.Node) bool {
			switch x := m.(type) {
			case *ast.DeferStmt:
				if !inLit && !simpleTopLevelDefer(fd, x, info) {
					reason = "defers"
				}
			case *ast.LabeledStmt:
				// (labels the normaliser itself left in an earlier round are renamed per copy)
				if !strings.HasPrefix(x.Label.Name, "_inl") && !strings.HasPrefix(x.Label.Name, "_unr") {
					reason = "has labels"
				}
			case *ast.BranchStmt:
				if x.Tok == token.GOTO && (x.Label == nil || (!strings.HasPrefix(x.Label.Name, "_inl") && !strings.HasPrefix(x.Label.Name, "_unr"))) {
					reason = "has goto"
				}
			case *ast.CallExpr:
				if id, ok := x.Fun.(*ast.Ident); ok && id.Name == "recover" {
					if _, isB := info.Uses[id].(*types.Builtin); isB && !recoverOK[id] {
						reason = "calls recover"
					}
				}
			case *ast.FuncLit:
				if m != n {
					walk(x.Body, true)
					return false
				}
			}
			return true
		})
	}
	walk(fd.Body, false)
	if reason != "" {
		return reason
	}
	if fd.Recv != nil {
		if len(fd.Recv.List) != 1 {
			return "odd receiver"
		}
	}
	return ""
}

// ---- statement-level rewriting ----

// processBlock rewrites the statement lists below n (not descending into function literals
// more than needed: their bodies are processed as separate lists).
func (in *inliner) processBlock(n ast.Node, owner *ast.FuncDecl) {
	if n == nil {
		return
	}
	ast.Inspect(n, func(m ast.Node) bool {
		switch x := m.(type) {
		case *ast.BlockStmt:
			x.List = in.rewriteList(x.List, owner)
		case *ast.CaseClause:
			x.Body = in.rewriteList(x.Body, owner)
		case *ast.CommClause:
			x.Body = in.rewriteList(x.Body, owner)
		}
		return true
	})
}

func (in *inliner) rewriteList(list []ast.Stmt, owner *ast.FuncDecl) []ast.Stmt {
	var out []ast.Stmt
	for _, s := range list {
		out = append(out, in.rewriteStmt(s, owner, 0)...)
	}
	return out
}

// rewriteStmt returns the statements replacing s (s itself when nothing applies).
func (in *inliner) rewriteStmt(s ast.Stmt, owner *ast.FuncDecl, depth int) []ast.Stmt {
	if depth > 6 {
		return []ast.Stmt{s}
	}
	switch x := s.(type) {
	case *ast.ExprStmt:
		if ce, ok := x.X.(*ast.CallExpr); ok {
			if g := in.candidateCallee(ce); g != nil {
				if repl, ok := in.expand(ce, g, nil, token.ILLEGAL, nil, nil, false); ok {
					return in.again(repl, owner, depth)
				}
			}
		}
		if pre, ok := in.hoist(s, []*ast.Expr{&x.X}); ok {
			if repl, ok := in.tailDup(pre, s, false); ok {
				return repl
			}
			return in.again(append(pre, s), owner, depth)
		}
	case *ast.AssignStmt:
		if len(x.Rhs) == 1 && (x.Tok == token.DEFINE || x.Tok == token.ASSIGN) {
			if ce, ok := x.Rhs[0].(*ast.CallExpr); ok {
				if g := in.candidateCallee(ce); g != nil {
					if repl, ok := in.expand(ce, g, x.Lhs, x.Tok, nil, nil, false); ok {
						return in.again(repl, owner, depth)
					}
				}
			}
		}
		if x.Tok == token.DEFINE || x.Tok == token.ASSIGN {
			plainTargets := true
			if x.Tok == token.ASSIGN {
				for i := range x.Lhs {
					if _, isId := x.Lhs[i].(*ast.Ident); !isId {
						plainTargets = false // index / selector targets are evaluated first: keep the order
					}
				}
			}
			if plainTargets {
				var es []*ast.Expr
				for i := range x.Rhs {
					es = append(es, &x.Rhs[i])
				}
				if pre, ok := in.hoist(s, es); ok {
					return in.again(append(pre, s), owner, depth)
				}
			}
		}
	case *ast.ReturnStmt:
		if len(x.Results) == 1 {
			if ce, ok := x.Results[0].(*ast.CallExpr); ok {
				if g := in.candidateCallee(ce); g != nil {
					if repl, ok := in.expand(ce, g, nil, token.ILLEGAL, x, func(rs []ast.Expr) []ast.Stmt {
						return []ast.Stmt{&ast.ReturnStmt{Results: rs}}
					}, true); ok {
						return in.again(repl, owner, depth)
					}
				}
			}
		}
		var es []*ast.Expr
		for i := range x.Results {
			es = append(es, &x.Results[i])
		}
		if pre, ok := in.hoist(s, es); ok {
			if repl, ok := in.tailDup(pre, s, true); ok {
				return repl
			}
			return in.again(append(pre, s), owner, depth)
		}
	case *ast.DeclStmt:
		if gd, ok := x.Decl.(*ast.GenDecl); ok && gd.Tok == token.VAR && len(gd.Specs) == 1 {
			if vs, ok := gd.Specs[0].(*ast.ValueSpec); ok && len(vs.Values) > 0 {
				var es []*ast.Expr
				for i := range vs.Values {
					es = append(es, &vs.Values[i])
				}
				if pre, ok := in.hoist(s, es); ok {
					return in.again(append(pre, s), owner, depth)
				}
			}
		}
	case *ast.IfStmt:
		if x.Init != nil {
			// if v, ok := h(x); cond { ... }  ->  { v, ok := h(x); if cond { ... } }
			if in.stmtHasCandidate(x.Init) {
				init := x.Init
				x.Init = nil
				inner := in.rewriteStmt(init, owner, depth+1)
				if len(inner) == 1 && inner[0] == init {
					x.Init = init // nothing happened
				} else {
					blk := &ast.BlockStmt{List: append(inner, in.rewriteStmt(x, owner, depth+1)...)}
					return []ast.Stmt{blk}
				}
			}
		} else {
			if pre, ok := in.hoist(s, []*ast.Expr{&x.Cond}); ok {
				blk := &ast.BlockStmt{List: append(in.again(pre, owner, depth), x)}
				return []ast.Stmt{blk}
			}
			// a candidate call under && / || / !: compute the condition step by step
			if pre, nc, ok := in.lowerCond(x.Cond, owner, depth); ok {
				x.Cond = nc
				return []ast.Stmt{&ast.BlockStmt{List: append(pre, x)}}
			}
		}
		// else-if chains: `else if v := h(); c {` -> `else { ... }`
		if ei, ok := x.Else.(*ast.IfStmt); ok {
			repl := in.rewriteStmt(ei, owner, depth+1)
			if !(len(repl) == 1 && repl[0] == ast.Stmt(ei)) {
				x.Else = &ast.BlockStmt{List: repl}
			}
		}
	case *ast.SwitchStmt:
		if x.Init == nil && x.Tag != nil {
			if pre, ok := in.hoist(s, []*ast.Expr{&x.Tag}); ok {
				blk := &ast.BlockStmt{List: append(in.again(pre, owner, depth), x)}
				return []ast.Stmt{blk}
			}
		}
	}
	return []ast.Stmt{s}
}

// lowerCond rewrites a boolean expression that holds candidate calls under short-circuit
// operators into statements computing it into a temporary, keeping evaluation order and
// short-circuiting: `a && h(x)` -> `t := a; if t { t = h(x) }`.
func (in *inliner) lowerCond(e ast.Expr, owner *ast.FuncDecl, depth int) ([]ast.Stmt, ast.Expr, bool) {
	has := false
	ast.Inspect(e, func(n ast.Node) bool {
		if _, ok := n.(*ast.FuncLit); ok {
			return false
		}
		if ce, ok := n.(*ast.CallExpr); ok && in.candidateCallee(ce) != nil {
			has = true
		}
		return true
	})
	if !has || depth > 6 {
		return nil, e, false
	}
	switch x := e.(type) {
	case *ast.ParenExpr:
		return in.lowerCond(x.X, owner, depth)
	case *ast.UnaryExpr:
		if x.Op == token.NOT {
			pre, ne, ok := in.lowerCond(x.X, owner, depth)
			if !ok {
				return nil, e, false
			}
			return pre, &ast.UnaryExpr{Op: token.NOT, X: &ast.ParenExpr{X: ne}}, true
		}
	case *ast.BinaryExpr:
		if x.Op == token.LAND || x.Op == token.LOR {
			preL, l, okL := in.lowerCond(x.X, owner, depth+1)
			if !okL {
				preL, l = nil, x.X
			}
			preR, r, okR := in.lowerCond(x.Y, owner, depth+1)
			if !okR {
				preR, r = nil, x.Y
			}
			in.n++
			t := fmt.Sprintf("_inl%d_c", in.n)
			out := append(preL, &ast.AssignStmt{Lhs: []ast.Expr{ast.NewIdent(t)}, Tok: token.DEFINE, Rhs: []ast.Expr{l}})
			var guard ast.Expr = ast.NewIdent(t)
			if x.Op == token.LOR {
				guard = &ast.UnaryExpr{Op: token.NOT, X: ast.NewIdent(t)}
			}
			body := append(preR, &ast.AssignStmt{Lhs: []ast.Expr{ast.NewIdent(t)}, Tok: token.ASSIGN, Rhs: []ast.Expr{r}})
			out = append(out, &ast.IfStmt{Cond: guard, Body: &ast.BlockStmt{List: body}})
			return out, ast.NewIdent(t), true
		}
	case *ast.CallExpr:
		if in.candidateCallee(x) != nil {
			tv, ok := in.info.Types[x]
			if !ok || tv.Type == nil {
				return nil, e, false
			}
			if _, isTuple := tv.Type.(*types.Tuple); isTuple {
				return nil, e, false
			}
			in.n++
			t := fmt.Sprintf("_inl%d_v", in.n)
			as := &ast.AssignStmt{Lhs: []ast.Expr{ast.NewIdent(t)}, Tok: token.DEFINE, Rhs: []ast.Expr{x}}
			return in.rewriteStmt(as, owner, depth+1), ast.NewIdent(t), true
		}
	}
	// some other expression holding a candidate: try the plain hoist on a scratch statement
	tmp := e
	st := &ast.ExprStmt{X: tmp}
	if pre, ok := in.hoist(st, []*ast.Expr{&st.X}); ok {
		return in.again(pre, owner, depth), st.X, true
	}
	return nil, e, false
}

// again re-processes freshly produced statements (an inlined body may contain further
// candidate calls only if the callee was processed later; hoisted temporaries are
// assignments whose right-hand side is the candidate call).
func (in *inliner) again(stmts []ast.Stmt, owner *ast.FuncDecl, depth int) []ast.Stmt {
	var out []ast.Stmt
	for _, s := range stmts {
		if as, ok := s.(*ast.AssignStmt); ok && len(as.Rhs) == 1 {
			if ce, ok := as.Rhs[0].(*ast.CallExpr); ok && in.candidateCallee(ce) != nil {
				out = append(out, in.rewriteStmt(s, owner, depth+1)...)
				continue
			}
		}
		// a statement that still holds a candidate call after one was hoisted out of it
		// (`return h(a) + "." + h(b)`): hoist the next one
		switch s.(type) {
		case *ast.AssignStmt, *ast.ReturnStmt, *ast.ExprStmt, *ast.DeclStmt:
			if depth < 6 && in.stmtHasCandidate(s) {
				out = append(out, in.rewriteStmt(s, owner, depth+1)...)
				continue
			}
		}
		out = append(out, s)
	}
	return out
}

func (in *inliner) stmtHasCandidate(s ast.Stmt) bool {
	found := false
	ast.Inspect(s, func(n ast.Node) bool {
		if _, ok := n.(*ast.FuncLit); ok {
			return false
		}
		if ce, ok := n.(*ast.CallExpr); ok && in.candidateCallee(ce) != nil {
			found = true
		}
		return true
	})
	return found
}

func (in *inliner) candidateCallee(ce *ast.CallExpr) *types.Func {
	id := calleeIdent(ce)
	if id == nil {
		return nil
	}
	if v, isVar := in.info.Uses[id].(*types.Var); isVar {
		if g := in.litVar[v]; g != nil && in.cand[g] {
			if _, plain := ce.Fun.(*ast.Ident); plain {
				return g
			}
		}
		return nil
	}
	g, ok := in.info.Uses[id].(*types.Func)
	if !ok || !in.cand[g] || in.decls[g] == nil {
		return nil
	}
	return g
}

// hoist finds, in evaluation order, the first candidate call nested inside the given
// expressions such that everything evaluated before it is a plain identifier / literal /
// method value, and that is not under && / || / a function literal. It replaces the call
// by a fresh temporary and returns the statement(s) that compute it.
func (in *inliner) hoist(s ast.Stmt, exprs []*ast.Expr) ([]ast.Stmt, bool) {
	var target *ast.CallExpr
	var slot *ast.Expr
	blocked := false
	var walk func(e *ast.Expr, top bool)
	walk = func(e *ast.Expr, top bool) {
		if blocked || target != nil || *e == nil {
			return
		}
		switch x := (*e).(type) {
		case *ast.Ident, *ast.BasicLit:
			return
		case *ast.ParenExpr:
			walk(&x.X, false)
		case *ast.SelectorExpr:
			// pkg.Name, or value.method / value.field on a plain identifier
			if _, ok := x.X.(*ast.Ident); ok {
				return
			}
			walk(&x.X, false)
			if target == nil {
				blocked = true // a field read after some evaluation: order matters
			}
		case *ast.StarExpr:
			walk(&x.X, false)
			if target == nil {
				blocked = true
			}
		case *ast.UnaryExpr:
			if x.Op == token.ARROW {
				blocked = true
				return
			}
			walk(&x.X, false)
		case *ast.BinaryExpr:
			walk(&x.X, false)
			if x.Op == token.LAND || x.Op == token.LOR {
				// the right operand is evaluated conditionally
				if target == nil {
					blocked = true
				}
				return
			}
			walk(&x.Y, false)
		case *ast.CallExpr:
			if g := in.candidateCallee(x); g != nil && !top {
				// its own arguments must be hoistable-free of earlier effects: they are evaluated as part of the call
				target, slot = x, e
				return
			}
			if g := in.candidateCallee(x); g != nil && top {
				// handled by the statement patterns
				blocked = true
				return
			}
			// a conversion or a call of something else: its operands first, then the call itself is an effect
			walk(&x.Fun, false)
			for i := range x.Args {
				walk(&x.Args[i], false)
			}
			if target == nil {
				// a non-candidate call precedes whatever follows: stop (unless it is a conversion / builtin len, cap)
				if tv, ok := in.info.Types[x.Fun]; ok && tv.IsType() {
					return
				}
				if id, ok := x.Fun.(*ast.Ident); ok {
					if _, isB := in.info.Uses[id].(*types.Builtin); isB && (id.Name == "len" || id.Name == "cap") {
						return
					}
				}
				blocked = true
			}
		case *ast.CompositeLit:
			for i := range x.Elts {
				if kv, ok := x.Elts[i].(*ast.KeyValueExpr); ok {
					walk(&kv.Value, false)
				} else {
					walk(&x.Elts[i], false)
				}
			}
		case *ast.TypeAssertExpr:
			walk(&x.X, false)
			if target == nil {
				blocked = true
			}
		case *ast.IndexExpr:
			walk(&x.X, false)
			walk(&x.Index, false)
			if target == nil {
				blocked = true
			}
		case *ast.SliceExpr:
			blocked = true
		case *ast.FuncLit:
			return
		default:
			blocked = true
		}
	}
	for _, e := range exprs {
		walk(e, true)
		if blocked || target != nil {
			break
		}
	}
	if target == nil {
		return nil, false
	}
	tv, ok := in.info.Types[target]
	if !ok || tv.Type == nil {
		return nil, false
	}
	if _, isTuple := tv.Type.(*types.Tuple); isTuple {
		return nil, false
	}
	in.n++
	tmp := ast.NewIdent(fmt.Sprintf("_inl%d_v", in.n))
	pre := &ast.AssignStmt{Lhs: []ast.Expr{tmp}, Tok: token.DEFINE, Rhs: []ast.Expr{target}}
	*slot = ast.NewIdent(tmp.Name)
	// the temporary's type for later type queries
	in.info.Types[pre.Lhs[0]] = types.TypeAndValue{Type: tv.Type}
	return []ast.Stmt{pre}, true
}

// expand builds the replacement of one call. Exactly one of (lhs/tok), ret, or neither
// (expression statement) describes how the results are used.
// consume, when non-nil, builds the statements that use the results at each return point of
// the callee (the consumer statement is duplicated into the inlined body - tail duplication -
// so that no join of the result values is created); terminal tells that those statements end
// the enclosing function themselves (a return).
func (in *inliner) expand(ce *ast.CallExpr, g *types.Func, lhs []ast.Expr, tok token.Token, ret *ast.ReturnStmt, consume func(results []ast.Expr) []ast.Stmt, terminal bool) ([]ast.Stmt, bool) {
	fd := in.decls[g]
	sig := g.Type().(*types.Signature)
	keep := func(reason string) ([]ast.Stmt, bool) {
		in.keptN[g]++
		in.rep.Kept = append(in.rep.Kept, fmt.Sprintf("%s -> %s: %s", in.curFunc, declKey(fd), reason))
		return nil, false
	}
	if ce.Ellipsis != token.NoPos && !sig.Variadic() {
		return keep("spread call")
	}
	nres := sig.Results().Len()
	if lhs != nil && len(lhs) != nres {
		return keep("result count")
	}
	for _, st := range fd.Body.List {
		if _, isDefer := st.(*ast.DeferStmt); isDefer && !(terminal && consume != nil) {
			// deferred calls run between the helper's return and the use of its results:
			// no duplication of the consumer into the return points (except for `return h(...)`,
			// where the deferred calls are written out before each duplicated return - below)
			consume, terminal = nil, false
		}
	}
	// names the body refers to must mean the same thing at the call site
	callScope := in.pkg.Types.Scope().Innermost(ce.Pos())
	if callScope == nil {
		return keep("no scope at the call")
	}
	qual, qok := in.qualifierFor(in.curFile, callScope, ce.Pos())
	if !qok {
		return keep("a needed package name is shadowed at the call site")
	}
	conflict := ""
	needImports := map[string]string{} // path -> name
	ast.Inspect(fd.Body, func(n ast.Node) bool {
		id, ok := n.(*ast.Ident)
		if !ok {
			return true
		}
		obj := in.info.Uses[id]
		if obj == nil {
			return true
		}
		switch o := obj.(type) {
		case *types.PkgName:
			needImports[o.Imported().Path()] = o.Name()
			_, found := callScope.LookupParent(id.Name, ce.Pos())
			if found != nil {
				if pn, ok := found.(*types.PkgName); !ok || pn.Imported().Path() != o.Imported().Path() {
					conflict = id.Name
				}
			}
		default:
			if obj.Parent() == in.pkg.Types.Scope() || obj.Parent() == types.Universe {
				_, found := callScope.LookupParent(id.Name, ce.Pos())
				if found != obj {
					conflict = id.Name
				}
			} else if rg, isLit := in.litRange[g]; isLit && obj.Pkg() == in.pkg.Types && obj.Pos().IsValid() && (obj.Pos() < rg[0] || obj.Pos() > rg[1]) {
				// a local the closure captures (variable, constant, type): the name must denote
				// it at the call site too
				switch o := obj.(type) {
				case *types.Var:
					if o.IsField() {
						return true
					}
				case *types.Const, *types.TypeName:
				default:
					return true
				}
				_, found := callScope.LookupParent(id.Name, ce.Pos())
				if found != obj {
					conflict = id.Name
				}
			}
		}
		return true
	})
	if conflict != "" {
		return keep("name " + conflict + " means something else at the call site")
	}
	in.n++
	pfx := fmt.Sprintf("_inl%d_", in.n)
	var pre []ast.Stmt
	var inner []ast.Stmt
	declVar := func(name string, t types.Type, val ast.Expr) ast.Stmt {
		te, err := parser.ParseExpr(types.TypeString(t, qual))
		if err != nil {
			te = ast.NewIdent("any")
		}
		vs := &ast.ValueSpec{Names: []*ast.Ident{ast.NewIdent(name)}, Type: te}
		if val != nil {
			vs.Values = []ast.Expr{val}
		}
		return &ast.DeclStmt{Decl: &ast.GenDecl{Tok: token.VAR, Specs: []ast.Spec{vs}}}
	}
	use := func(name string) ast.Stmt {
		return &ast.AssignStmt{Lhs: []ast.Expr{ast.NewIdent("_")}, Tok: token.ASSIGN, Rhs: []ast.Expr{ast.NewIdent(name)}}
	}
	// receiver
	if fd.Recv != nil {
		se, ok := ce.Fun.(*ast.SelectorExpr)
		if !ok {
			return keep("method called through an expression")
		}
		sel := in.info.Selections[se]
		if sel == nil || len(sel.Index()) != 1 {
			return keep("promoted method")
		}
		recvT := sig.Recv().Type()
		xT := in.info.TypeOf(se.X)
		var rx ast.Expr = se.X
		_, wantPtr := recvT.(*types.Pointer)
		_, havePtr := xT.Underlying().(*types.Pointer)
		if _, isNamedPtr := xT.(*types.Pointer); isNamedPtr {
			havePtr = true
		}
		switch {
		case wantPtr && !havePtr:
			rx = &ast.UnaryExpr{Op: token.AND, X: se.X}
		case !wantPtr && havePtr:
			rx = &ast.StarExpr{X: se.X}
		}
		tmp := pfx + "recv"
		pre = append(pre, declVar(tmp, recvT, rx))
		rname := "_"
		if len(fd.Recv.List[0].Names) == 1 {
			rname = fd.Recv.List[0].Names[0].Name
		}
		if rname != "_" {
			inner = append(inner, declVar(rname, recvT, ast.NewIdent(tmp)), use(rname))
		} else {
			pre = append(pre, use(tmp))
		}
	}
	// parameters
	var pnames []string
	var ptypes []types.Type
	for i := 0; i < sig.Params().Len(); i++ {
		pnames = append(pnames, sig.Params().At(i).Name())
		ptypes = append(ptypes, sig.Params().At(i).Type())
	}
	args := ce.Args
	if sig.Variadic() {
		k := sig.Params().Len() - 1
		if ce.Ellipsis == token.NoPos {
			if len(args) < k {
				return keep("argument count")
			}
			elemT := ptypes[k].(*types.Slice).Elem()
			te, err := parser.ParseExpr(types.TypeString(types.NewSlice(elemT), qual))
			if err != nil {
				return keep("variadic type")
			}
			var packed ast.Expr = &ast.CompositeLit{Type: te, Elts: append([]ast.Expr{}, args[k:]...)}
			if len(args) == k {
				packed = ast.NewIdent("nil")
			}
			args = append(append([]ast.Expr{}, args[:k]...), packed)
		}
	}
	if len(args) != len(pnames) {
		// f(g()) with a multi-value g
		return keep("argument count")
	}
	for i, a := range args {
		tmp := fmt.Sprintf("%sa%d", pfx, i)
		pre = append(pre, declVar(tmp, ptypes[i], a))
		if pnames[i] == "" || pnames[i] == "_" {
			pre = append(pre, use(tmp))
			continue
		}
		inner = append(inner, declVar(pnames[i], ptypes[i], ast.NewIdent(tmp)), use(pnames[i]))
	}
	// results
	var rnames []string
	for i := 0; i < nres; i++ {
		rn := fmt.Sprintf("%sr%d", pfx, i)
		rnames = append(rnames, rn)
		if consume == nil {
			pre = append(pre, declVar(rn, sig.Results().At(i).Type(), nil))
		}
	}
	var named []string
	for i := 0; i < nres; i++ {
		if n := sig.Results().At(i).Name(); n != "" && n != "_" {
			named = append(named, n)
			inner = append(inner, declVar(n, sig.Results().At(i).Type(), nil), use(n))
		} else if n == "_" {
			named = append(named, "")
		}
	}
	hasNamed := len(named) == nres && nres > 0
	for _, n := range named {
		if n == "" {
			hasNamed = false
		}
	}
	label := pfx + "end"
	body := copyNode(fd.Body).(*ast.BlockStmt)
	// labels that earlier inlining left in the helper's body: every copy gets its own
	{
		ren := map[string]string{}
		ast.Inspect(body, func(n ast.Node) bool {
			if ls, ok := n.(*ast.LabeledStmt); ok {
				ren[ls.Label.Name] = fmt.Sprintf("%sl%d_%s", pfx, len(ren), ls.Label.Name)
				ls.Label = ast.NewIdent(ren[ls.Label.Name])
			}
			return true
		})
		if len(ren) > 0 {
			ast.Inspect(body, func(n ast.Node) bool {
				if bs, ok := n.(*ast.BranchStmt); ok && bs.Label != nil && ren[bs.Label.Name] != "" {
					bs.Label = ast.NewIdent(ren[bs.Label.Name])
				}
				return true
			})
		}
	}
	usedGoto := false
	bad := ""
	// deferred calls of the helper: registered where the defer statement stands, run after
	// the helper's return point (in reverse order), before the caller uses the results
	var deferredCalls []ast.Stmt
	hasDefers := false
	// `return helper(...)`: the helper's deferred calls run after its results are computed and
	// before the caller's own return - at every return point of the helper it is known which of
	// its (top-level) defers are registered, so the calls are written out there, before the
	// duplicated `return`, instead of after a common end under run-time flags
	termDefers := terminal && consume != nil
	var rawCalls []*ast.CallExpr
	var rawIdx []int
	retTop := map[*ast.ReturnStmt]int{}
	if termDefers {
		for j, st := range body.List {
			j := j
			ast.Inspect(st, func(n ast.Node) bool {
				switch x := n.(type) {
				case *ast.FuncLit:
					return false
				case *ast.ReturnStmt:
					retTop[x] = j
				}
				return true
			})
		}
	}
	for i, st := range fd.Body.List {
		ds, ok := st.(*ast.DeferStmt)
		if !ok {
			continue
		}
		hasDefers = true
		if fl, isLit := ds.Call.Fun.(*ast.FuncLit); isLit && callsRecover(fl) {
			// a deferred recover must stay a defer: possible only where the helper's return is the
			// caller's return (`return helper(...)`) - the caller then registers it
			if ret == nil {
				return keep("a deferred recover() in a call that is not `return helper(...)`")
			}
			continue
		}
		if !termDefers {
			consume, terminal = nil, false
		}
		k := len(deferredCalls)
		flag := fmt.Sprintf("%sd%d", pfx, k)
		var reg []ast.Stmt
		if !termDefers {
			pre = append(pre, declVar(flag, types.Typ[types.Bool], nil))
			reg = []ast.Stmt{&ast.AssignStmt{Lhs: []ast.Expr{ast.NewIdent(flag)}, Tok: token.ASSIGN, Rhs: []ast.Expr{ast.NewIdent("true")}}}
		}
		cds := body.List[i].(*ast.DeferStmt)
		call := &ast.CallExpr{}
		switch fx := ds.Call.Fun.(type) {
		case *ast.FuncLit:
			ft := flag + "f"
			pre = append(pre, declVar(ft, in.info.TypeOf(fx), nil))
			reg = append(reg, &ast.AssignStmt{Lhs: []ast.Expr{ast.NewIdent(ft)}, Tok: token.ASSIGN, Rhs: []ast.Expr{cds.Call.Fun}})
			call.Fun = ast.NewIdent(ft)
		case *ast.SelectorExpr:
			if sel := in.info.Selections[fx]; sel != nil {
				rt := flag + "r"
				xT := in.info.TypeOf(fx.X)
				var saved ast.Expr = cds.Call.Fun.(*ast.SelectorExpr).X
				// a pointer-receiver method on an addressable value (`defer mu.Unlock()`,
				// `defer cache.Unlock()` with an embedded mutex): what the defer statement saves
				// is the ADDRESS of the operand - a copy of the value would be another object
				if mf, isF := sel.Obj().(*types.Func); isF {
					if msig, isSig := mf.Type().(*types.Signature); isSig && msig.Recv() != nil {
						_, wantPtr := msig.Recv().Type().(*types.Pointer)
						_, havePtr := xT.Underlying().(*types.Pointer)
						if wantPtr && !havePtr {
							xT = types.NewPointer(xT)
							saved = &ast.UnaryExpr{Op: token.AND, X: saved}
						}
					}
				}
				pre = append(pre, declVar(rt, xT, nil))
				reg = append(reg, &ast.AssignStmt{Lhs: []ast.Expr{ast.NewIdent(rt)}, Tok: token.ASSIGN, Rhs: []ast.Expr{saved}})
				call.Fun = &ast.SelectorExpr{X: ast.NewIdent(rt), Sel: ast.NewIdent(fx.Sel.Name)}
			} else {
				call.Fun = cds.Call.Fun
			}
		default:
			call.Fun = cds.Call.Fun
		}
		fsig, _ := in.info.TypeOf(ds.Call.Fun).(*types.Signature)
		for ai, a := range ds.Call.Args {
			at := in.info.TypeOf(a)
			if fsig != nil && ai < fsig.Params().Len() && !(fsig.Variadic() && ai >= fsig.Params().Len()-1) {
				at = fsig.Params().At(ai).Type()
			}
			if b, isB := at.(*types.Basic); isB && b.Info()&types.IsUntyped != 0 {
				at = types.Default(at)
			}
			an := fmt.Sprintf("%sa%d", flag, ai)
			pre = append(pre, declVar(an, at, nil))
			reg = append(reg, &ast.AssignStmt{Lhs: []ast.Expr{ast.NewIdent(an)}, Tok: token.ASSIGN, Rhs: []ast.Expr{cds.Call.Args[ai]}})
			call.Args = append(call.Args, ast.NewIdent(an))
		}
		body.List[i] = &ast.BlockStmt{List: reg}
		deferredCalls = append(deferredCalls, &ast.IfStmt{Cond: ast.NewIdent(flag), Body: &ast.BlockStmt{List: []ast.Stmt{&ast.ExprStmt{X: call}}}})
		rawCalls = append(rawCalls, call)
		rawIdx = append(rawIdx, i)
	}
	mkReturn := func(rs *ast.ReturnStmt, last bool) ast.Stmt {
		var list []ast.Stmt
		if consume != nil {
			var vals []ast.Expr
			switch {
			case nres == 0:
			case len(rs.Results) == 0:
				if !hasNamed {
					bad = "bare return without named results"
					return rs
				}
				for i := range named {
					vals = append(vals, ast.NewIdent(named[i]))
				}
			case len(rs.Results) != nres:
				bad = "return of a multi-value call"
				return rs
			default:
				// each result is converted to its declared type, as the return would do
				for i, r := range rs.Results {
					te, err := parser.ParseExpr(types.TypeString(sig.Results().At(i).Type(), qual))
					if err != nil {
						bad = "result type"
						return rs
					}
					vals = append(vals, &ast.CallExpr{Fun: &ast.ParenExpr{X: te}, Args: []ast.Expr{r}})
				}
			}
			if termDefers && len(rawCalls) > 0 {
				j, known := retTop[rs]
				if !known {
					bad = "return point not located"
					return rs
				}
				if len(vals) > 0 {
					var tmps []ast.Expr
					for vi := range vals {
						in.n++
						tmps = append(tmps, ast.NewIdent(fmt.Sprintf("%st%d_%d", pfx, in.n, vi)))
					}
					list = append(list, &ast.AssignStmt{Lhs: tmps, Tok: token.DEFINE, Rhs: vals})
					for _, t := range tmps {
						list = append(list, use(t.(*ast.Ident).Name))
					}
					vals = nil
					for _, t := range tmps {
						vals = append(vals, ast.NewIdent(t.(*ast.Ident).Name))
					}
				}
				for k := len(rawCalls) - 1; k >= 0; k-- {
					if rawIdx[k] < j {
						list = append(list, &ast.ExprStmt{X: copyNode(rawCalls[k]).(*ast.CallExpr)})
					}
				}
			}
			list = append(list, consume(vals)...)
			if !last && !terminal {
				usedGoto = true
				list = append(list, &ast.BranchStmt{Tok: token.GOTO, Label: ast.NewIdent(label)})
			}
			return &ast.BlockStmt{List: list}
		}
		switch {
		case nres == 0:
		case len(rs.Results) == 0:
			if !hasNamed {
				bad = "bare return without named results"
				return rs
			}
			var l, r []ast.Expr
			for i := range rnames {
				l = append(l, ast.NewIdent(rnames[i]))
				r = append(r, ast.NewIdent(named[i]))
			}
			list = append(list, &ast.AssignStmt{Lhs: l, Tok: token.ASSIGN, Rhs: r})
		default:
			var l []ast.Expr
			for i := range rnames {
				l = append(l, ast.NewIdent(rnames[i]))
			}
			list = append(list, &ast.AssignStmt{Lhs: l, Tok: token.ASSIGN, Rhs: rs.Results})
		}
		if !last {
			usedGoto = true
			list = append(list, &ast.BranchStmt{Tok: token.GOTO, Label: ast.NewIdent(label)})
		}
		return &ast.BlockStmt{List: list}
	}
	// replace returns (not inside function literals)
	var lastStmt ast.Stmt
	if n := len(body.List); n > 0 {
		lastStmt = body.List[n-1]
	}
	astutil.Apply(body, func(c *astutil.Cursor) bool {
		switch x := c.Node().(type) {
		case *ast.FuncLit:
			return false
		case *ast.ReturnStmt:
			c.Replace(mkReturn(x, ast.Stmt(x) == lastStmt))
			return false
		}
		return true
	}, nil)
	if bad != "" {
		return keep(bad)
	}
	if nres > 0 && hasNamed {
		// falling off the end is impossible for functions with results; nothing to add
		_ = named
	}
	inner = append(inner, body.List...)
	out := append(pre, &ast.BlockStmt{List: inner})
	var results []ast.Expr
	for _, rn := range rnames {
		results = append(results, ast.NewIdent(rn))
	}
	var tail ast.Stmt
	switch {
	case consume != nil:
		if usedGoto {
			tail = &ast.EmptyStmt{}
		}
	case ret != nil:
		tail = &ast.ReturnStmt{Results: results}
	case lhs != nil:
		tail = &ast.AssignStmt{Lhs: lhs, Tok: tok, Rhs: results}
	default:
		for _, rn := range rnames {
			out = append(out, use(rn))
		}
		if usedGoto {
			tail = &ast.EmptyStmt{}
		}
	}
	if hasDefers && !termDefers {
		if usedGoto {
			out = append(out, &ast.LabeledStmt{Label: ast.NewIdent(label), Stmt: &ast.EmptyStmt{}})
		}
		for i := len(deferredCalls) - 1; i >= 0; i-- {
			out = append(out, deferredCalls[i])
		}
		if tail != nil {
			if _, isEmpty := tail.(*ast.EmptyStmt); !isEmpty {
				out = append(out, tail)
			}
		}
	} else {
		if usedGoto {
			if tail == nil {
				tail = &ast.EmptyStmt{}
			}
			tail = &ast.LabeledStmt{Label: ast.NewIdent(label), Stmt: tail}
		}
		if tail != nil {
			out = append(out, tail)
		}
	}
	// imports of the callee's file that the caller's file lacks
	for path, name := range in.extraImports[fd] {
		needImports[path] = name
	}
	if in.curDecl != nil {
		if in.extraImports == nil {
			in.extraImports = map[*ast.FuncDecl]map[string]string{}
		}
		if in.extraImports[in.curDecl] == nil {
			in.extraImports[in.curDecl] = map[string]string{}
		}
		for path, name := range needImports {
			in.extraImports[in.curDecl][path] = name
		}
	}
	for path, name := range needImports {
		have := false
		for _, imp := range in.curFile.Imports {
			if strings.Trim(imp.Path.Value, "\"") == path {
				have = true
			}
		}
		if !have {
			base := path[strings.LastIndex(path, "/")+1:]
			if name == base {
				astutil.AddImport(in.fset, in.curFile, path)
			} else {
				astutil.AddNamedImport(in.fset, in.curFile, name, path)
			}
		}
	}
	in.inlinedN[g]++
	in.changed[in.curFile] = true
	in.rep.Inlined = append(in.rep.Inlined, fmt.Sprintf("%s <- %s", in.curFunc, declKey(fd)))
	return out, true
}

// qualifierFor renders types as the caller's file names them; ok=false when a needed
// package name is hidden by a local at pos.
func (in *inliner) qualifierFor(f *ast.File, scope *types.Scope, pos token.Pos) (types.Qualifier, bool) {
	names := map[string]string{}
	for _, imp := range f.Imports {
		path := strings.Trim(imp.Path.Value, "\"")
		if imp.Name != nil {
			names[path] = imp.Name.Name
		}
	}
	ok := true
	q := func(p *types.Package) string {
		if p == in.pkg.Types {
			return ""
		}
		n := p.Name()
		if a, has := names[p.Path()]; has {
			n = a
		}
		if _, obj := scope.LookupParent(n, pos); obj != nil {
			if pn, isPkg := obj.(*types.PkgName); !isPkg || pn.Imported().Path() != p.Path() {
				ok = false
			}
		} else {
			// not imported in this file yet: will be added under its own name
			found := false
			for _, imp := range f.Imports {
				if strings.Trim(imp.Path.Value, "\"") == p.Path() {
					found = true
				}
			}
			if !found {
				astutil.AddImport(in.fset, f, p.Path())
			}
		}
		return n
	}
	return q, ok
}

// copyNode deep-copies an AST subtree (positions dropped so that printing lays it out afresh).
func copyNode(n ast.Node) ast.Node {
	v := deepCopy(reflect.ValueOf(n))
	return v.Interface().(ast.Node)
}

var posType = reflect.TypeOf(token.NoPos)

func deepCopy(v reflect.Value) reflect.Value {
	switch v.Kind() {
	case reflect.Ptr:
		if v.IsNil() {
			return v
		}
		if v.Type() == reflect.TypeOf((*ast.Object)(nil)) || v.Type() == reflect.TypeOf((*ast.Scope)(nil)) {
			return reflect.Zero(v.Type())
		}
		nv := reflect.New(v.Type().Elem())
		nv.Elem().Set(deepCopy(v.Elem()))
		return nv
	case reflect.Interface:
		if v.IsNil() {
			return v
		}
		nv := reflect.New(v.Type()).Elem()
		nv.Set(deepCopy(v.Elem()))
		return nv
	case reflect.Slice:
		if v.IsNil() {
			return v
		}
		nv := reflect.MakeSlice(v.Type(), v.Len(), v.Len())
		for i := 0; i < v.Len(); i++ {
			nv.Index(i).Set(deepCopy(v.Index(i)))
		}
		return nv
	case reflect.Struct:
		nv := reflect.New(v.Type()).Elem()
		for i := 0; i < v.NumField(); i++ {
			if !nv.Field(i).CanSet() {
				continue
			}
			if v.Field(i).Type() == posType {
				// zero position - except where the validity of the position carries meaning:
				// `f(xs...)`, `type T = U`
				if n := v.Type().Field(i).Name; (n == "Ellipsis" && v.Type() == reflect.TypeOf(ast.CallExpr{})) || (n == "Assign" && v.Type() == reflect.TypeOf(ast.TypeSpec{})) {
					nv.Field(i).Set(v.Field(i))
				}
				continue
			}
			nv.Field(i).Set(deepCopy(v.Field(i)))
		}
		return nv
	default:
		return v
	}
}

// ---- renamed baseline functions ----

// baselineShapes (rules/baseline_functions.json, "shapes") records for every baseline function
// its signature string and the multiset of names it mentions; a function of today's tree that
// is not in the baseline but has the signature of a *missing* baseline function and shares
// most of its vocabulary is that function under a new name.
func renamedBaseline(in *inliner, base map[string]bool) map[string]bool {
	out := map[string]bool{}
	b, err := os.ReadFile(filepath.Join(rulesDir, "baseline_functions.json"))
	if err != nil {
		return out
	}
	var doc struct {
		Shapes map[string]struct {
			Sig   string   `json:"sig"`
			Words []string `json:"words"`
		} `json:"shapes"`
	}
	if json.Unmarshal(b, &doc) != nil || len(doc.Shapes) == 0 {
		return out
	}
	present := map[string]bool{}
	for _, fd := range in.decls {
		present[declKey(fd)] = true
	}
	type cand struct {
		key   string
		sig   string
		words map[string]bool
	}
	var news []cand
	for obj, fd := range in.decls {
		k := declKey(fd)
		if base[k] {
			continue
		}
		news = append(news, cand{k, funcSigString(obj), funcWords(fd)})
	}
	sort.Slice(news, func(i, j int) bool { return news[i].key < news[j].key })
	var missing []string
	for k := range doc.Shapes {
		if !present[k] {
			missing = append(missing, k)
		}
	}
	sort.Strings(missing)
	taken := map[string]bool{}
	for _, mk := range missing {
		sh := doc.Shapes[mk]
		best, bestScore, second := "", 0.0, 0.0
		for _, c := range news {
			if taken[c.key] || c.sig != sh.Sig {
				continue
			}
			inter := 0
			for _, w := range sh.Words {
				if c.words[w] {
					inter++
				}
			}
			union := len(sh.Words) + len(c.words) - inter
			score := 1.0
			if union > 0 {
				score = float64(inter) / float64(union)
			}
			if score > bestScore {
				best, second, bestScore = c.key, bestScore, score
			} else if score > second {
				second = score
			}
		}
		if best != "" && bestScore >= 0.5 && bestScore > second {
			out[best] = true
			taken[best] = true
			in.rep.Renamed = append(in.rep.Renamed, mk+" -> "+best)
		}
	}
	return out
}

func funcSigString(obj *types.Func) string {
	sig := obj.Type().(*types.Signature)
	q := func(p *types.Package) string { return p.Path() }
	s := types.TypeString(sig, q)
	if r := sig.Recv(); r != nil {
		s = "(" + types.TypeString(r.Type(), q) + ")." + s
	}
	return s
}

// funcWords: the identifiers of called functions / selected members and the string constants a body mentions.
func funcWords(fd *ast.FuncDecl) map[string]bool {
	w := map[string]bool{}
	ast.Inspect(fd.Body, func(n ast.Node) bool {
		switch x := n.(type) {
		case *ast.SelectorExpr:
			w["."+x.Sel.Name] = true
		case *ast.BasicLit:
			if x.Kind == token.STRING {
				w[x.Value] = true
			}
		case *ast.CallExpr:
			if id, ok := x.Fun.(*ast.Ident); ok && id.Name != fd.Name.Name {
				w[id.Name+"()"] = true
			}
		}
		return true
	})
	return w
}

// tailDup: `t := h(x); S(t)` where S is one statement without further candidate calls becomes
// the inlined body of h with `t := <result>; S(t)` at each of its return points, so that the
// statement keeps the guards under which each result is produced (no join of results).
func (in *inliner) tailDup(pre []ast.Stmt, s ast.Stmt, terminal bool) ([]ast.Stmt, bool) {
	if len(pre) != 1 || in.stmtHasCandidate(s) {
		return nil, false
	}
	as, ok := pre[0].(*ast.AssignStmt)
	if !ok || as.Tok != token.DEFINE || len(as.Lhs) != 1 || len(as.Rhs) != 1 {
		return nil, false
	}
	tmp, ok := as.Lhs[0].(*ast.Ident)
	if !ok {
		return nil, false
	}
	ce, ok := as.Rhs[0].(*ast.CallExpr)
	if !ok {
		return nil, false
	}
	g := in.candidateCallee(ce)
	if g == nil || g.Type().(*types.Signature).Results().Len() != 1 {
		return nil, false
	}
	consume := func(rs []ast.Expr) []ast.Stmt {
		if len(rs) != 1 {
			return nil
		}
		return []ast.Stmt{
			&ast.AssignStmt{Lhs: []ast.Expr{ast.NewIdent(tmp.Name)}, Tok: token.DEFINE, Rhs: []ast.Expr{rs[0]}},
			copyNode(s).(ast.Stmt),
		}
	}
	return in.expand(ce, g, nil, token.ILLEGAL, nil, consume, terminal)
}

// registerLocalClosures finds `name := func(...) {...}` bindings whose variable is only ever
// called (never reassigned, passed, deferred or started as a goroutine, and not from inside
// the literal itself) and enters them as inlining candidates.
func (in *inliner) registerLocalClosures() {
	in.litVar = map[*types.Var]*types.Func{}
	in.litAssign = map[*types.Func]*ast.AssignStmt{}
	in.litUses = map[*types.Func]int{}
	in.litOwner = map[*types.Func]*ast.FuncDecl{}
	in.litRange = map[*types.Func][2]token.Pos{}
	type owner struct {
		fd   *ast.FuncDecl
		file *ast.File
	}
	var owners []owner
	for _, fd := range in.decls {
		owners = append(owners, owner{fd, in.fileOf[fd]})
	}
	sort.Slice(owners, func(i, j int) bool { return owners[i].fd.Pos() < owners[j].fd.Pos() })
	for _, ow := range owners {
		type bind struct {
			id  *ast.Ident
			lit *ast.FuncLit
			as  *ast.AssignStmt
		}
		var binds []bind
		ast.Inspect(ow.fd.Body, func(n ast.Node) bool {
			as, ok := n.(*ast.AssignStmt)
			if !ok || as.Tok != token.DEFINE || len(as.Lhs) != 1 || len(as.Rhs) != 1 {
				return true
			}
			id, ok := as.Lhs[0].(*ast.Ident)
			lit, ok2 := as.Rhs[0].(*ast.FuncLit)
			if ok && ok2 && id.Name != "_" {
				binds = append(binds, bind{id, lit, as})
			}
			return true
		})
		for _, b := range binds {
			v, ok := in.info.Defs[b.id].(*types.Var)
			if !ok {
				continue
			}
			sig, ok := in.info.TypeOf(b.lit).(*types.Signature)
			if !ok {
				continue
			}
			okUses, nUses := true, 0
			var stack []ast.Node
			ast.Inspect(ow.fd.Body, func(n ast.Node) bool {
				if n == nil {
					stack = stack[:len(stack)-1]
					return true
				}
				stack = append(stack, n)
				id, isId := n.(*ast.Ident)
				if !isId || in.info.Uses[id] != types.Object(v) {
					return true
				}
				if id.Pos() >= b.lit.Pos() && id.Pos() <= b.lit.End() {
					okUses = false // recursive
					return true
				}
				if len(stack) < 2 {
					okUses = false
					return true
				}
				ce, isCall := stack[len(stack)-2].(*ast.CallExpr)
				if !isCall || ce.Fun != ast.Expr(id) {
					okUses = false
					return true
				}
				if len(stack) >= 3 {
					switch stack[len(stack)-3].(type) {
					case *ast.DeferStmt, *ast.GoStmt:
						okUses = false
					}
				}
				nUses++
				return true
			})
			if !okUses || nUses == 0 {
				continue
			}
			fake := types.NewFunc(b.lit.Pos(), in.pkg.Types, b.id.Name, sig)
			fd := &ast.FuncDecl{Name: ast.NewIdent(b.id.Name), Type: b.lit.Type, Body: b.lit.Body}
			if r := unsuitableBody(fd, in.info); r != "" {
				continue
			}
			in.decls[fake] = fd
			in.fileOf[fd] = ow.file
			in.cand[fake] = true
			in.litVar[v] = fake
			in.litAssign[fake] = b.as
			in.litUses[fake] = nUses
			in.litOwner[fake] = ow.fd
			in.litRange[fake] = [2]token.Pos{b.lit.Pos(), b.lit.End()}
		}
	}
}


// simpleTopLevelDefer: a defer statement that stands directly in the function's statement list
// (so it is registered at most once, at a known point), in a function without named results
// (a deferred call cannot change what is returned), deferring a method call, a function call or
// a parameterless literal. Such a helper can be inlined with the deferred calls placed after
// its return point. (What differs is the panic path only: the deferred call is then not run.)
func simpleTopLevelDefer(fd *ast.FuncDecl, ds *ast.DeferStmt, info *types.Info) bool {
	top := false
	for _, st := range fd.Body.List {
		if st == ast.Stmt(ds) {
			top = true
		}
	}
	if !top {
		return false
	}
	if fd.Type.Results != nil {
		for _, f := range fd.Type.Results.List {
			if len(f.Names) > 0 {
				return false
			}
		}
	}
	switch fx := ds.Call.Fun.(type) {
	case *ast.FuncLit:
		return len(ds.Call.Args) == 0
	case *ast.SelectorExpr, *ast.Ident:
		_ = fx
		return ds.Call.Ellipsis == token.NoPos
	}
	return false
}

func callsRecover(fl *ast.FuncLit) bool {
	found := false
	ast.Inspect(fl.Body, func(n ast.Node) bool {
		if ce, ok := n.(*ast.CallExpr); ok {
			if id, ok := ce.Fun.(*ast.Ident); ok && id.Name == "recover" {
				found = true
			}
		}
		return true
	})
	return found
}
