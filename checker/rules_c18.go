package main

import (
	"fmt"
	"sort"
	"strings"
)

func init() {
	register(&propDef{
		ID:          "C18",
		Run:         ruleC18,
		Explanation: "Decides the accept/reject function of the redact command's argument validation exhaustively over all 2^13 presence combinations of {file argument, piped stdin, key pair in the environment, --outputFile, --encrypt, --redactFieldsRegexp, --redactFieldNames, --atlasProjectId, --atlasClusterName, --atlasPublicKey, --atlasPrivateKey, --atlasLogStartDate, --atlasLogEndDate}: the closure's SSA is abstractly interpreted over the presence domain (strings empty/non-empty, ints zero/non-zero, unknown for results of effectful calls - both branches explored) up to the first processing call or os.Exit, and the verdict, the accepted mode, the side effects performed before a flags-only rejection and the loudness of each rejection are compared with a rule table written from the property and the README. The space is finite and enumerated completely (exhaustive). NOT decided: cobra's own parsing (unknown flags, MaximumNArgs), detection of a piped stdin by Stat, value-dependent failures (invalid regexp).",
		RuleText:    "one obligation per presence assignment (8192): abstract run(s) of the closure vs. the specification predicate; accept <=> not(regexp and fieldNames) and (start<=>end) and exactly one source among {file, stdin, atlas} and (atlas => project, cluster, outputFile, public and private key by flag or environment) and (encrypt and not atlas => file, not stdin, outputFile); a state is flag-rejected when every abstract path ends in a non-zero exit, and then no path may carry a side effect and every exit must be preceded by a write to stderr",
	})
}

func ruleC18(c *Ctx, r *Report) {
	an := c.anchors()
	if !requireAnchors(r, an, "C18-anchor", "redact") {
		return
	}
	for _, fl := range presenceFlagAtoms {
		if an.FlagAlloc[fl] == nil {
			r.Undecided("C18-anchor", "flag:"+fl, "-", "flag --"+fl+" is not bound")
			return
		}
	}
	pi := newPresenceInterp(c, an)
	for _, p := range pi.problems {
		r.Undecided("C18-anchor", "presence-model", "-", p)
	}
	if len(pi.problems) > 0 {
		return
	}
	type issue struct {
		rule, kind, detail string
		at                 presenceAtoms
	}
	var issues []issue
	nAcc, nRej, nDC, nPaths := 0, 0, 0, 0
	modeCount := map[string]int{}
	var samples []map[string]any
	nSampleAcc := 0
	sigs := map[string]bool{} // distinct abstract behaviours (set of path outcomes with their effects)
	total := 1 << 13
	for bits := 0; bits < total; bits++ {
		at := atomsFromBits(bits)
		rs := pi.run(at)
		nPaths += len(rs)
		sigs[describeResults(rs)] = true
		wantAccept, wantMode, dontCare := specVerdict(at)
		if dontCare {
			nDC++
		}
		anyAccept, allReject, anyUndecided, anySilent := false, len(rs) > 0, false, false
		for _, x := range rs {
			switch x.Verdict {
			case "accept":
				anyAccept = true
				allReject = false
			case "reject":
			case "silent-return":
				anySilent = true
				allReject = false
			default:
				anyUndecided = true
				allReject = false
			}
		}
		if (wantAccept && nSampleAcc < 8) || (!wantAccept && bits%1021 == 5 && len(samples) < 18) {
			if wantAccept {
				nSampleAcc++
			}
			samples = append(samples, map[string]any{"assignment": at.String(), "spec_accept": wantAccept, "spec_mode": wantMode, "abstract_runs": describeResults(rs)})
		}
		if anyUndecided {
			issues = append(issues, issue{"C18-R1", "undecided", describeResults(rs), at})
			continue
		}
		if anyAccept {
			nAcc++
		} else {
			nRej++
		}
		if !dontCare {
			switch {
			case wantAccept && !anyAccept:
				issues = append(issues, issue{"C18-R1", "rejects-a-well-defined-job", "specification accepts (" + wantMode + "), implementation: " + describeResults(rs), at})
			case !wantAccept && anyAccept:
				issues = append(issues, issue{"C18-R1", "accepts-an-ill-defined-job", "specification rejects, implementation: " + describeResults(rs), at})
			case !wantAccept && anySilent:
				issues = append(issues, issue{"C18-R3", "silent-exit-0", "specification rejects, implementation ends with status 0 without processing: " + describeResults(rs), at})
			case wantAccept && anyAccept:
				for _, x := range rs {
					if x.Verdict == "accept" {
						modeCount[x.Mode]++
						if x.Mode != wantMode {
							issues = append(issues, issue{"C18-R1", "wrong-mode", fmt.Sprintf("the one source present is %s but the %s path is taken", wantMode, x.Mode), at})
						}
					}
				}
			}
		}
		if allReject {
			for _, x := range rs {
				if len(x.Effects) > 0 {
					issues = append(issues, issue{"C18-R2", "side-effect-before-flag-rejection", fmt.Sprintf("every run of this combination is rejected, yet %v happens before the exit at %s", x.Effects, x.Where), at})
					break
				}
			}
			for _, x := range rs {
				if !x.StderrWritten || x.ExitCode == 0 {
					issues = append(issues, issue{"C18-R3", "quiet-rejection", fmt.Sprintf("rejection at %s without a message on stderr / non-zero status", x.Where), at})
					break
				}
			}
		}
	}
	r.Exhaustive = true
	r.Extra["evaluations"] = total
	r.Extra["distinct_nontrivial"] = len(sigs)
	r.Extra["presence_assignments"] = total
	r.Extra["abstract_paths"] = nPaths
	r.Extra["accepted_assignments"] = nAcc
	r.Extra["rejected_assignments"] = nRej
	r.Extra["dont_care_assignments"] = nDC
	r.Extra["accepted_modes"] = modeCount
	r.Extra["presence_samples"] = samples
	r.Floor("C18-R1", 1, "exhaustive comparison")
	// group issues by (rule, kind); report each group once with the common cube and examples
	groups := map[string][]issue{}
	for _, is := range issues {
		groups[is.rule+"|"+is.kind] = append(groups[is.rule+"|"+is.kind], is)
	}
	var keys []string
	for k := range groups {
		keys = append(keys, k)
	}
	sort.Strings(keys)
	for _, k := range keys {
		g := groups[k]
		rule, kind := strings.SplitN(k, "|", 2)[0], strings.SplitN(k, "|", 2)[1]
		cube := commonCube(g[0].at, func(yield func(presenceAtoms)) {
			for _, is := range g {
				yield(is.at)
			}
		})
		var ex []string
		for i, is := range g {
			if i >= 4 {
				break
			}
			ex = append(ex, is.at.String()+": "+is.detail)
		}
		r.Bad(rule, fmt.Sprintf("%s:%s[%s]", an.RedactClosure.Name(), kind, cube), c.Pos(an.RedactClosure.Pos()),
			fmt.Sprintf("%d assignment(s); common cube [%s]; e.g. %s", len(g), cube, strings.Join(ex, " || ")))
	}
	have := map[string]bool{}
	for _, is := range issues {
		have[is.rule] = true
	}
	if !have["C18-R1"] {
		r.OK("C18-R1", an.RedactClosure.Name()+":decision-table", c.Pos(an.RedactClosure.Pos()), fmt.Sprintf("all %d presence assignments agree with the specification predicate (%d accepted, %d rejected, %d don't-care; %d abstract paths)", total, nAcc, nRej, nDC, nPaths))
	}
	cobraSilenceRule(c, r, "C18-R3")
	flagSetsAttachedRule(c, r, "C18-R3")
	if !have["C18-R2"] {
		r.OK("C18-R2", an.RedactClosure.Name()+":no-side-effect-before-flag-rejection", c.Pos(an.RedactClosure.Pos()), "every flag-rejected assignment exits before any file creation / key generation / network call")
	}
	if !have["C18-R3"] {
		r.OK("C18-R3", an.RedactClosure.Name()+":rejections-are-loud", c.Pos(an.RedactClosure.Pos()), "every flag rejection writes to stderr and exits non-zero")
	}
}

// commonCube: the atoms whose value is the same in every assignment of the group.
func commonCube(first presenceAtoms, each func(func(presenceAtoms))) string {
	type kv struct {
		name string
		get  func(presenceAtoms) bool
	}
	var atoms []kv
	atoms = append(atoms, kv{"file", func(a presenceAtoms) bool { return a.File }}, kv{"stdin", func(a presenceAtoms) bool { return a.Stdin }}, kv{"envKeys", func(a presenceAtoms) bool { return a.Env }})
	for _, f := range presenceFlagAtoms {
		f := f
		atoms = append(atoms, kv{f, func(a presenceAtoms) bool { return a.Flags[f] }})
	}
	same := make([]bool, len(atoms))
	for i := range same {
		same[i] = true
	}
	each(func(a presenceAtoms) {
		for i, x := range atoms {
			if x.get(a) != x.get(first) {
				same[i] = false
			}
		}
	})
	var ps []string
	for i, x := range atoms {
		if same[i] {
			if x.get(first) {
				ps = append(ps, x.name)
			} else {
				ps = append(ps, "!"+x.name)
			}
		}
	}
	return strings.Join(ps, ",")
}
