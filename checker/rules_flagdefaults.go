package main

import (
	"strings"

	"golang.org/x/tools/go/ssa"
)

// flagDefaultsRule (C04-R7): what may change outside the zones changes "under" its flag
// (attr.remote under --redactIPs, namespaces under --redactNamespaces, numbers under
// --redactNumbers ...). The value an option has when its flag is absent is the default handed to
// the flag binding, so that default must be a constant - `false` for a switch, a string / integer
// literal otherwise. A default computed at start-up (an environment variable, a configuration
// file, a function result) switches the option without its flag.
func flagDefaultsRule(c *Ctx, r *Report, rule string) {
	an := c.anchors()
	if an.Main == nil || an.RedactClosure == nil {
		r.Undecided(rule, "flag-defaults", "-", "main / the redact command not found")
		return
	}
	r.Floor(rule, 8, "flag bindings of the redact command (17 today)")
	immutableGlobal := func(g *ssa.Global) bool {
		// a package-level variable with a constant initialiser that nothing ever assigns
		stores, constInit := 0, false
		count := func(f *ssa.Function, isInit bool) {
			allInstrs(f, func(i ssa.Instruction) {
				if st, ok := i.(*ssa.Store); ok && st.Addr == ssa.Value(g) {
					stores++
					if _, isC := st.Val.(*ssa.Const); isC && isInit {
						constInit = true
					}
				}
			})
		}
		for _, f := range c.SortedFuncs() {
			count(f, false)
		}
		if init := c.SPkg.Func("init"); init != nil {
			count(init, true)
		}
		return stores == 1 && constInit
	}
	allInstrs(an.Main, func(i ssa.Instruction) {
		call, ok := i.(*ssa.Call)
		if !ok {
			return
		}
		k := calleeKey(&call.Call)
		const pfx = "(*github.com/spf13/pflag.FlagSet)."
		if !strings.HasPrefix(k, pfx) || (!strings.HasSuffix(k, "VarP") && !strings.HasSuffix(k, "Var")) || len(call.Call.Args) < 5 {
			return
		}
		name, ok := constString(call.Call.Args[2])
		if !ok || an.FlagAlloc[name] != call.Call.Args[1] {
			return
		}
		def := peel(call.Call.Args[len(call.Call.Args)-2])
		construct := "main:flag-default(--" + name + ")"
		okDef, what := false, ""
		switch d := def.(type) {
		case *ssa.Const:
			okDef = true
			what = d.String()
			if b, isB := constBool(d); isB && b {
				okDef = false
				what = "the constant true: the option is on without its flag"
			}
		case *ssa.UnOp:
			if g, isG := d.X.(*ssa.Global); isG && g.Pkg == c.SPkg && immutableGlobal(g) {
				okDef, what = true, "package constant "+g.Name()
			} else {
				what = "a value loaded at start-up (" + d.String() + ")"
			}
		default:
			what = "computed at start-up (" + def.String() + ")"
		}
		r.Check(okDef, rule, construct, c.InstrPos(call), "default is "+what,
			"the default of --"+name+" is "+what+": the option takes effect without its flag being given (environment, configuration or a start-up computation decide it), so places that may change only under the flag change without it")
	})
}

// flagBinderRule: the value of a flag is what the user wrote. pflag's String / Bool / Int /
// StringArray binders store the argument as it is (numbers and switches parsed by strconv);
// StringSlice / StringToString split at commas (a namespace or replacement text with a comma
// becomes two values), Count and custom pflag.Value implementations interpret it in their own
// way (and pflag quotes a value that a custom Set rejects in its error message). For the named
// flags (those whose value a property follows into the run) only the verbatim binders are accepted.
func flagBinderRule(c *Ctx, r *Report, rule string, names ...string) {
	an := c.anchors()
	verbatim := map[string]bool{"string": true, "bool": true, "int": true, "int64": true, "uint": true, "stringArray": true}
	for _, name := range names {
		kind, has := an.FlagKind[name]
		if !has {
			continue // the flag's absence is the business of the rule that needs its value
		}
		why := "bound with pflag's " + kind + " binder: the argument is not stored as the user wrote it"
		switch kind {
		case "stringSlice", "stringToString", "stringToInt":
			why = "bound with pflag's " + kind + " binder, which splits every value at commas (a value containing a comma becomes several)"
		case "custom":
			why = "bound through a custom pflag.Value: its Set method decides what is stored, and pflag quotes the rejected value in the error it prints"
		}
		r.Check(verbatim[kind], rule, "main:flag-binder(--"+name+")", c.Pos(an.Main.Pos()), "--"+name+" is bound with the verbatim "+kind+" binder", "--"+name+" is "+why)
	}
}
