package main

import (
	"encoding/json"
	"fmt"
	"os"
	"path/filepath"
	"sort"
	"strings"
	"time"
)

// Ob is one obligation: a (rule, construct) pair evaluated on the current source.
type Ob struct {
	Rule       string `json:"rule"`
	Construct  string `json:"construct"` // stable instance key (never a line number)
	Pos        string `json:"pos"`       // file:line:col, for the reader only
	Status     string `json:"status"`    // ok | violation | known | undecided
	Detail     string `json:"detail,omitempty"`
	Nontrivial bool   `json:"nontrivial"` // discharge needed a guard/path/flow argument
}

type KnownFinding struct {
	Property     string `json:"property"`
	Rule         string `json:"rule"`
	Construct    string `json:"construct"`
	Status       string `json:"status"` // open | fixed
	What         string `json:"what"`
	FailingInput string `json:"failing_input,omitempty"`
	Commit       string `json:"commit,omitempty"`
	ID           string `json:"id,omitempty"`
}

type Report struct {
	Prop        string
	Tier        string
	Seed        int
	Obs         []*Ob
	Floors      map[string]int // rule -> minimum number of obligations that must be found
	FloorNotes  map[string]string
	Explanation string
	RuleText    string
	Assumptions []string
	Analysed    map[string]any
	Extra       map[string]any
	Exhaustive  bool
	Notes       []string
	seen        map[string]bool
}

func NewReport(prop, tier string, seed int) *Report {
	return &Report{Prop: prop, Tier: tier, Seed: seed, Floors: map[string]int{}, FloorNotes: map[string]string{}, Analysed: map[string]any{}, Extra: map[string]any{}, seen: map[string]bool{}}
}

func (r *Report) add(rule, construct, pos, status, detail string, nontrivial bool) *Ob {
	key := rule + "|" + construct
	if r.seen[key] {
		// keep keys unique: suffix with an ordinal (stable: obligations are produced in source order)
		for n := 2; ; n++ {
			k2 := fmt.Sprintf("%s#%d", construct, n)
			if !r.seen[rule+"|"+k2] {
				construct = k2
				key = rule + "|" + k2
				break
			}
		}
	}
	r.seen[key] = true
	o := &Ob{Rule: rule, Construct: construct, Pos: pos, Status: status, Detail: detail, Nontrivial: nontrivial}
	r.Obs = append(r.Obs, o)
	return o
}

func (r *Report) OK(rule, construct, pos, detail string) {
	r.add(rule, construct, pos, "ok", detail, true)
}
func (r *Report) Trivial(rule, construct, pos, detail string) {
	r.add(rule, construct, pos, "ok", detail, false)
}
func (r *Report) Bad(rule, construct, pos, detail string) {
	r.add(rule, construct, pos, "violation", detail, true)
}
func (r *Report) Undecided(rule, construct, pos, detail string) {
	r.add(rule, construct, pos, "undecided", "undecided: "+detail, true)
}

// Check records ok or violation depending on cond.
func (r *Report) Check(cond bool, rule, construct, pos, okDetail, badDetail string) bool {
	if cond {
		r.OK(rule, construct, pos, okDetail)
	} else {
		r.Bad(rule, construct, pos, badDetail)
	}
	return cond
}

func (r *Report) Floor(rule string, n int, note string) {
	r.Floors[rule] = n
	r.FloorNotes[rule] = note
}

func loadKnown(path string) ([]KnownFinding, error) {
	b, err := os.ReadFile(path)
	if err != nil {
		if os.IsNotExist(err) {
			return nil, nil
		}
		return nil, err
	}
	var k struct {
		Findings []KnownFinding `json:"findings"`
	}
	if err := json.Unmarshal(b, &k); err != nil {
		return nil, err
	}
	return k.Findings, nil
}

// Finish applies floors and known findings, prints the verdict, writes evidence, and
// returns the process exit code.
func (r *Report) Finish(known []KnownFinding, evidenceDir string, t0 time.Time) int {
	// floors: a rule that found fewer instances than confirmed by hand lost its anchor
	count := map[string]int{}
	for _, o := range r.Obs {
		count[o.Rule]++
	}
	var floorRules []string
	for rule := range r.Floors {
		floorRules = append(floorRules, rule)
	}
	sort.Strings(floorRules)
	floorsOut := map[string]any{}
	for _, rule := range floorRules {
		min := r.Floors[rule]
		floorsOut[rule] = map[string]any{"required": min, "found": count[rule], "note": r.FloorNotes[rule]}
		if count[rule] < min {
			r.Bad(rule, "floor", "-", fmt.Sprintf("anchor lost: rule found %d instances, floor is %d (%s)", count[rule], min, r.FloorNotes[rule]))
		}
	}
	// known findings
	usedKnown := map[int]bool{}
	for _, o := range r.Obs {
		if o.Status != "violation" {
			continue
		}
		for i, k := range known {
			if k.Property == r.Prop && k.Status == "open" && k.Rule == o.Rule && k.Construct == o.Construct {
				o.Status = "known"
				usedKnown[i] = true
				fmt.Printf("KNOWN-FINDING: property=%s %s %s %s [%s]\n", r.Prop, o.Rule, o.Construct, k.What, o.Pos)
			}
		}
	}
	for i, k := range known {
		if k.Property == r.Prop && k.Status == "open" && !usedKnown[i] {
			fmt.Printf("STALE-FINDING: property=%s %s %s no longer reproduces\n", r.Prop, k.Rule, k.Construct)
		}
	}
	nOK, nKnown, nViol, nNT := 0, 0, 0, 0
	distinct := map[string]bool{}
	perRule := map[string][3]int{}
	var viol []*Ob
	for _, o := range r.Obs {
		pr := perRule[o.Rule]
		switch o.Status {
		case "ok":
			nOK++
			pr[0]++
		case "known":
			nKnown++
			pr[1]++
		default:
			nViol++
			pr[2]++
			viol = append(viol, o)
		}
		perRule[o.Rule] = pr
		if o.Nontrivial && !distinct[o.Rule+"|"+o.Construct] {
			distinct[o.Rule+"|"+o.Construct] = true
			nNT++
		}
	}
	var rules []string
	for rule := range perRule {
		rules = append(rules, rule)
	}
	sort.Strings(rules)
	for _, rule := range rules {
		pr := perRule[rule]
		fmt.Printf("  %-10s obligations=%d ok=%d known=%d violations=%d\n", rule, pr[0]+pr[1]+pr[2], pr[0], pr[1], pr[2])
	}
	for _, n := range r.Notes {
		fmt.Printf("  note: %s\n", n)
	}
	// samples: spread across rules
	var samples []any
	perRuleSample := map[string]int{}
	for _, o := range r.Obs {
		if perRuleSample[o.Rule] < 3 && len(samples) < 40 {
			perRuleSample[o.Rule]++
			samples = append(samples, o)
		}
	}
	for _, o := range viol {
		if len(samples) < 60 {
			samples = append(samples, o)
		}
	}
	cov := map[string]any{
		"explanation":         r.Explanation,
		"rule":                r.RuleText,
		"obligations":         len(r.Obs),
		"discharged":          nOK,
		"known":               nKnown,
		"violations":          nViol,
		"evaluations":         len(r.Obs),
		"distinct_nontrivial": nNT,
		"samples":             samples,
		"analysed":            r.Analysed,
		"floors":              floorsOut,
		"exhaustive":          r.Exhaustive,
		"per_rule":            perRuleOut(perRule),
		"all_obligations":     r.Obs,
	}
	for k, v := range r.Extra {
		cov[k] = v
	}
	ev := map[string]any{
		"property_id": r.Prop,
		"tier":        r.Tier,
		"seed":        r.Seed,
		"level":       "other",
		"coverage":    cov,
		"assumptions": r.Assumptions,
		"wall_s":      time.Since(t0).Seconds(),
		"violations":  nViol,
	}
	_ = os.MkdirAll(evidenceDir, 0o755)
	b, _ := json.MarshalIndent(ev, "", " ")
	evPath := filepath.Join(evidenceDir, r.Prop+".json")
	if err := os.WriteFile(evPath, append(b, '\n'), 0o644); err != nil {
		fmt.Printf("cannot write evidence: %v\n", err)
		return 2
	}
	vpath := filepath.Join(evidenceDir, r.Prop+".violations.txt")
	if nViol == 0 {
		_ = os.Remove(vpath)
		fmt.Printf("OK property=%s tier=%s obligations=%d discharged=%d known=%d\n", r.Prop, r.Tier, len(r.Obs), nOK, nKnown)
		return 0
	}
	var sb strings.Builder
	for _, o := range viol {
		fmt.Fprintf(&sb, "%s %s\n  construct: %s\n  at: %s\n  %s\n\n", r.Prop, o.Rule, o.Construct, o.Pos, o.Detail)
		fmt.Printf("  VIOLATED %s %s @ %s: %s\n", o.Rule, o.Construct, o.Pos, o.Detail)
	}
	_ = os.WriteFile(vpath, []byte(sb.String()), 0o644)
	fmt.Printf("VIOLATION property=%s replay=%s\n", r.Prop, vpath)
	return 1
}

func perRuleOut(m map[string][3]int) map[string]any {
	out := map[string]any{}
	for k, v := range m {
		out[k] = map[string]int{"ok": v[0], "known": v[1], "violations": v[2]}
	}
	return out
}
