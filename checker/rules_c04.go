package main

import (
	"slices"
	"fmt"
	"sort"
	"strings"

	"golang.org/x/tools/go/ssa"
)

func init() {
	register(&propDef{
		ID:          "C04",
		Run:         ruleC04,
		Explanation: "Decides who may write what (structural necessary conditions of C04): (R1) the parsed line is mutated only by Set calls with constant keys from an enumerated table - attr.remote under --redactIPs with a constant, the three command documents re-stored as themselves, attr.planSummary under the per-line field-name mode, attr.ns under --redactNamespaces, the zone keys inside a command document, the namespace-bearing command keys under --redactNamespaces - never by Delete/ReplaceKey, never on the root entry, and element stores into input arrays happen only inside the zone walkers; the line function returns the parsed entry itself; (R2) number tokens stay json.Number: UseNumber dominates every decoder use and nothing on the line path converts a number; (R3) inside zones an object key changes only under the field-name parameter; (R4) $limit / $skip / $sample / search index, limit, numCandidates / $binary.subType are typed Exempt in the reconstructed tables and every Exempt arm of the walkers stores the value it was given, untouched; (R5) the parser inserts members in token order, appends array elements one per token and returns scalar tokens unchanged; the serialiser walks Front-to-Next and marshals every member's key and value; (R6) command documents are dispatched only under the component/message gate with no disjunct beyond COMMAND, QUERY, WRITE, 'Slow query'. NOT decided: byte-level rendering of strings and numbers by encoding/json (HTML escaping of < > & is a semantically identical re-encoding).",
		RuleText:    "obligations = every mutator call / element store whose receiver is (part of) the parsed line (provenance IN), decoder uses, HashName calls feeding a key, table positions the statement names, Exempt-guarded walker sinks, parser and serialiser loops, dispatch gates",
	})
}

func ruleC04(c *Ctx, r *Report) {
	p := c.prov()
	for _, pr := range p.Problems {
		r.Undecided("C04-anchor", "prov", "-", pr)
	}
	if len(p.Problems) > 0 {
		return
	}
	root := p.Root
	cmdFn := p.cmdWalker()
	var nsFn *ssa.Function
	for _, f := range p.ZoneRoots {
		if f != cmdFn {
			nsFn = f
		}
	}
	hn := c.Fn("HashName")
	if cmdFn == nil || hn == nil {
		r.Undecided("C04-anchor", "walkers", "-", "command walker / pseudonym function not identified")
		return
	}
	var scope []*ssa.Function
	for f := range p.Scope {
		scope = append(scope, f)
	}
	sort.Slice(scope, func(i, j int) bool { return fnKey(scope[i]) < fnKey(scope[j]) })

	// the per-line field-name mode value (argument #1 of the command walker calls)
	var modeVal ssa.Value
	for _, d := range callsIn(root, func(k string, cc *ssa.Call) bool { return cc.Call.StaticCallee() == cmdFn }) {
		if len(d.Call.Args) > 1 {
			modeVal = d.Call.Args[1]
		}
	}
	hasFact := func(b *ssa.BasicBlock, pred func(f Fact) bool) bool {
		for _, f := range allFacts(b) {
			if pred(f) {
				return true
			}
		}
		return false
	}
	hasCfg := func(b *ssa.BasicBlock, name string) bool {
		for _, a := range p.atomsAt(b) {
			if a.Kind == "cfg" && a.Pol && a.Name == name {
				return true
			}
		}
		return false
	}
	innerWalker := func(f *ssa.Function) bool {
		if !p.Zone[f] || f == cmdFn || f == nsFn {
			return false
		}
		return true
	}

	// ---------------------------------------------------------------- R1 writers of the entry
	r.Floor("C04-R1", 14, "mutations of the parsed line: 6 in the line function, 11 in the command walker, 1 in the namespace rewriter, in-place array stores (today 24)")
	nsGuarded := false
	if nsFn != nil {
		gs, all := p.fnGuards(nsFn, 0)
		if all {
			for _, g := range gs {
				if g == "cfg(redactNamespaces)" {
					nsGuarded = true
				}
			}
		}
	}
	for _, f := range scope {
		allInstrs(f, func(i ssa.Instruction) {
			cc := callCommonOf(i)
			if cc != nil {
				k := calleeKey(cc)
				if k != omMethod("Set") && k != omMethod("Delete") && k != omMethod("ReplaceKey") {
					return
				}
				recv := cc.Args[0]
				o := p.Of(recv) | p.Of(resolveLocal(recv))
				if o&oIN == 0 {
					return // fresh map / table: not part of the parsed line (tables: C06-R1b)
				}
				if k != omMethod("Set") {
					r.Bad("C04-R1", fmt.Sprintf("%s:%s(input)", f.Name(), shortKey(k)), c.InstrPos(i), "a member of the parsed line is deleted or re-keyed")
					return
				}
				key, isConst := constString(cc.Args[1])
				keyDesc := key
				var iterKeys []string
				if !isConst && f == cmdFn {
					// while passing over the command's members: Set(cmd, el.Key, ...) under tests of el.Key
					iterKeys = p.keysAt(cc.Args[1], i.Block())
					if len(iterKeys) > 0 {
						keyDesc = strings.Join(iterKeys, "|")
					}
				}
				if !isConst && len(iterKeys) == 0 {
					keyDesc = "<" + describeArg(cc.Args[1]) + ">"
				}
				construct := fmt.Sprintf("%s:set(input,%s)", f.Name(), keyDesc)
				val := cc.Args[2]
				b := i.Block()
				switch {
				case innerWalker(f):
					r.Trivial("C04-R1", construct, c.InstrPos(i), "inside a zone walker: only reachable below a dispatched zone key")
				case f == root:
					rk, _ := getKeyOfValue(recv)
					if rk != "attr" {
						r.Bad("C04-R1", construct, c.InstrPos(i), "the line function writes into a map other than attr (receiver is "+describeArg(recv)+"): top-level fields or foreign sub-documents are altered")
						return
					}
					switch key {
					case "remote":
						_, constVal := constString(peel(val))
						r.Check(isConst && constVal && hasCfg(b, "redactIPs"), "C04-R1", construct, c.InstrPos(i),
							"attr.remote is replaced by a constant under --redactIPs only", "attr.remote is rewritten outside --redactIPs or with a non-constant")
					case "originatingCommand", "cmd", "command", "commandArgs":
						vk, _ := getKeyOfValue(val)
						r.Check(vk == key, "C04-R1", construct, c.InstrPos(i),
							"attr."+key+" is re-stored as the (zone-redacted) document read from the same key: position and the other members are kept",
							"attr."+key+" is overwritten with something other than the document read from attr."+key+" ("+describeArg(val)+")")
					case "planSummary":
						okMode := modeVal != nil && hasFact(b, func(ft Fact) bool { return ft.Cond == modeVal && ft.Pol })
						r.Check(okMode, "C04-R1", construct, c.InstrPos(i), "attr.planSummary is rewritten only when the per-line field-name mode holds", "attr.planSummary is rewritten outside the per-line field-name mode")
					case "ns":
						r.Check(hasCfg(b, "redactNamespaces"), "C04-R1", construct, c.InstrPos(i), "attr.ns is rewritten under --redactNamespaces only", "attr.ns is rewritten without --redactNamespaces")
					default:
						r.Bad("C04-R1", construct, c.InstrPos(i), "the line function overwrites attr."+keyDesc+": an attribute outside the redaction zones is altered")
					}
				case f == cmdFn:
					okRecv := peel(recv) == ssa.Value(cmdFn.Params[0])
					_, isZone := zoneForms[key]
					if len(iterKeys) > 0 {
						isConst, isZone = true, true
						for _, ik := range iterKeys {
							if _, z := zoneForms[ik]; !z {
								isZone = false
							}
						}
					}
					if isConst && okRecv && slices.Contains(commandWrappers, key) {
						// cmd.Set("explain", <the document read from cmd["explain"]>) after it was
						// walked in place: stored back as itself
						if rv, kv, okG := getKeyValueOf(peel(val)); okG && peel(rv) == peel(recv) {
							if k2, isC := constString(kv); isC && k2 == key {
								r.OK("C04-R1", construct, c.InstrPos(i), "the wrapped command cmd."+key+" is re-stored as the document read from the same key: position and the other members are kept")
								return
							}
						}
					}
					if _, isFNV := commandFieldNameValues[key]; isConst && okRecv && isFNV {
						// cmd.key of a distinct command: a field name, renamed under the field-name mode only
						okMode := false
						for _, ft := range allFacts(b) {
							if peel(ft.Cond) == ssa.Value(cmdFn.Params[1]) && ft.Pol {
								okMode = true
							}
						}
						inner := peel(val)
						okVal := false
						if hc, isCall := inner.(*ssa.Call); isCall && hc.Call.StaticCallee() == hn {
							_, okVal = commandFieldNameValue(p, cmdFn, hc.Call.Args[0], b)
						}
						r.Check(okMode && okVal, "C04-R1", construct, c.InstrPos(i),
							"cmd."+key+" (a field name by the command's grammar) is replaced by its pseudonym under the field-name mode only",
							fmt.Sprintf("cmd.%s is rewritten outside the field-name mode or with something other than the pseudonym of the name it held (underMode=%v pseudonymOfItself=%v)", key, okMode, okVal))
						return
					}
					r.Check(isConst && isZone && okRecv, "C04-R1", construct, c.InstrPos(i),
						"the command walker rewrites a query-bearing key of the command document",
						fmt.Sprintf("the command walker writes %s (query-bearing keys are %v): a member outside the zones is altered", keyDesc, keysOfForms()))
				case f == nsFn:
					okRecv := peel(recv) == ssa.Value(nsFn.Params[0])
					okKey := isConst // a rewrite written out for one constant key
					for _, l := range iterLoops(nsFn) {
						if l.Kind == "slice" && len(varargValues(l.Coll)) > 0 && derivesFromElem(cc.Args[1], l) {
							okKey = true
						}
					}
					r.Check(okRecv && okKey && nsGuarded, "C04-R1", construct, c.InstrPos(i),
						"the namespace rewriter stores under keys of its constant list, and every call of it is guarded by --redactNamespaces",
						fmt.Sprintf("namespace rewriter: receiverIsParam=%v keyFromConstantList=%v allCallsUnderFlag=%v", okRecv, okKey, nsGuarded))
				default:
					r.Bad("C04-R1", construct, c.InstrPos(i), "a function outside the enumerated writers mutates the parsed line")
				}
				return
			}
			// element stores into input arrays / elements
			st, ok := i.(*ssa.Store)
			if !ok {
				return
			}
			switch a := st.Addr.(type) {
			case *ssa.IndexAddr:
				if _, isArr := a.X.(*ssa.Alloc); isArr {
					return
				}
				if p.Of(a.X)&oIN == 0 || !isAnySlice(a.X.Type()) {
					return
				}
				construct := fmt.Sprintf("%s:store(input-array)", f.Name())
				if innerWalker(f) {
					r.Trivial("C04-R1", construct, c.InstrPos(i), "in-place element store inside a zone walker")
				} else {
					r.Bad("C04-R1", construct, c.InstrPos(i), "an element of an input array is overwritten outside the zone walkers")
				}
			case *ssa.FieldAddr:
				if _, isEl := elemFieldName(a); isEl && p.Of(a.X)&oIN != 0 {
					r.Bad("C04-R1", fmt.Sprintf("%s:element-store(input)", f.Name()), c.InstrPos(i), "an element of an input document is overwritten in place")
				}
			}
		})
	}
	// the command walker and the namespace rewriter are applied to command documents only
	for _, wf := range []*ssa.Function{cmdFn, nsFn} {
		if wf == nil {
			continue
		}
		for _, call := range c.callersOf(wf) {
			if call.Parent() == cmdFn {
				// the explain wrapper: the command walker applies itself / the rewriter to cmd[explain]
				rv, ks, ok := p.memberKeys(cmdFn, call.Call.Args[0], call.Block())
				okEx := ok && rv == ssa.Value(cmdFn.Params[0]) && len(ks) >= 1 && allIn(ks, commandWrappers)
				wname := "?"
				if len(ks) >= 1 {
					wname = strings.Join(ks, "|")
				}
				r.Check(okEx, "C04-R1", fmt.Sprintf("%s:applies(%s,cmd.%s)", cmdFn.Name(), wf.Name(), wname), c.InstrPos(call),
					wf.Name()+" is applied to the command wrapped in cmd."+wname, wf.Name()+" is applied inside the command walker to something other than a wrapped command (explain, setQuerySettings, removeQuerySettings)")
				continue
			}
			if call.Parent() != root {
				r.Bad("C04-R1", fmt.Sprintf("%s:applies(%s)", call.Parent().Name(), wf.Name()), c.InstrPos(call), wf.Name()+" is applied outside the line function")
				continue
			}
			k, ok := getKeyOfValue(call.Call.Args[0])
			isCmd := ok && commandDocKeys[k]
			r.Check(isCmd, "C04-R1", fmt.Sprintf("%s:applies(%s,attr.%s)", root.Name(), wf.Name(), k), c.InstrPos(call),
				wf.Name()+" is applied to the command document read from attr."+k,
				wf.Name()+" is applied to something other than a command document ("+describeArg(call.Call.Args[0])+"): members of other documents with the same key names are rewritten")
		}
	}
	// the line function hands back the parsed entry itself
	var entry ssa.Value
	allInstrs(root, func(i ssa.Instruction) {
		if ex, ok := i.(*ssa.Extract); ok && ex.Index == 0 {
			if call, ok := ex.Tuple.(*ssa.Call); ok && calleeKey(&call.Call) == c.pkgFn("UnmarshalOrdered") {
				entry = ex
			}
		}
	})
	var badRet []string
	nRet := 0
	allInstrs(root, func(i ssa.Instruction) {
		ret, ok := i.(*ssa.Return)
		if !ok || len(ret.Results) != 2 {
			return
		}
		nRet++
		v := resolveLocal(ret.Results[0])
		if v == entry || isNilConst(v) {
			return
		}
		badRet = append(badRet, c.InstrPos(i))
	})
	r.Check(entry != nil && len(badRet) == 0 && nRet > 0, "C04-R1", root.Name()+":returns-parsed-entry", c.Pos(root.Pos()),
		fmt.Sprintf("all %d returns hand back the parsed entry itself (or nil with an error): every top-level field is carried over", nRet),
		fmt.Sprintf("the line function returns something other than the parsed entry at %v", badRet))

	// ---------------------------------------------------------------- R2 numbers
	r.Floor("C04-R2", 2, "UseNumber dominance + no conversion")
	numbersKeptRule(c, r, "C04-R2")

	// ---------------------------------------------------------------- R3 keys inside zones
	r.Floor("C04-R3", 3, "HashName calls feeding an object key (3 today)")
	for _, call := range p.hashCallSites() {
		f := call.Parent()
		feedsKey := false
		seen := map[ssa.Value]bool{}
		var visit func(v ssa.Value)
		visit = func(v ssa.Value) {
			if seen[v] {
				return
			}
			seen[v] = true
			for _, use := range referrers(v) {
				switch x := use.(type) {
				case *ssa.Phi:
					visit(x)
				case *ssa.Call:
					if calleeKey(&x.Call) == omMethod("Set") && x.Call.Args[1] == v {
						feedsKey = true
					}
				}
			}
		}
		visit(call)
		if !feedsKey {
			continue
		}
		gs := renameGuards(p, p.atomsAt(call.Block()))
		okG := false
		for _, g := range gs {
			if strings.HasPrefix(g, "param(") {
				okG = true
			}
		}
		r.Check(okG, "C04-R3", fmt.Sprintf("%s:key-rename[%s]", f.Name(), strings.Join(gs, ",")), c.InstrPos(call),
			"an object key is pseudonymised only under the field-name parameter: with field-name redaction off keys are kept",
			"an object key inside a zone is renamed without the field-name parameter being true")
	}

	// ---------------------------------------------------------------- R4 required exemptions
	stageClassificationRule(c, r, p, "C04-R4")
	r.Floor("C04-R4", 12, "table positions + Exempt arms of the walkers")
	requiredExemptions(c, r, "C04-R4", [][]string{
		{"AggregationOperators", "$limit"}, {"AggregationOperators", "$skip"}, {"AggregationOperators", "$sample"},
		{"CoreOperators", "$limit"}, {"CoreOperators", "$skip"}, {"CoreOperators", "$sample"},
		{"SearchAggregationOperators", "$search", "index"}, {"SearchAggregationOperators", "$searchMeta", "index"},
		{"SearchAggregationOperators", "$vectorSearch", "index"}, {"SearchAggregationOperators", "$vectorSearch", "limit"}, {"SearchAggregationOperators", "$vectorSearch", "numCandidates"},
		{"CoreOperators", "$binary", "subType"},
		// the index a $listSearchIndexes stage asks about is an Atlas Search index name in a
		// top-level stage like the others
		{"AggregationOperators", "$listSearchIndexes", "name"},
	})
	nExempt := 0
	for _, s := range p.sinks(p.Zone) {
		exempt := false
		for _, a := range s.Atoms {
			if a.Kind == "tbl" && a.Pol && a.Name == "Exempt" {
				exempt = true
			}
		}
		if !s.Raw {
			// sinks that are not raw have no atoms collected: compute them for Exempt arms
			for _, a := range p.atomsAt(s.Instr.Block()) {
				if a.Kind == "tbl" && a.Pol && a.Name == "Exempt" {
					exempt = true
				}
			}
		}
		if !exempt {
			continue
		}
		nExempt++
		construct := fmt.Sprintf("%s:%s[tbl==Exempt]", s.Fn.Name(), s.Kind)
		r.Check(s.Raw, "C04-R4", construct, c.InstrPos(s.Instr),
			"the Exempt arm stores / returns the value it was given, untouched", "under an Exempt classification the value is replaced or walked instead of being kept as is")
	}
	if nExempt < 3 {
		r.Bad("C04-R4", "exempt-arms", "-", fmt.Sprintf("only %d Exempt-guarded sinks found in the walkers (4 confirmed by hand): anchor lost", nExempt))
	}

	// ---------------------------------------------------------------- R5 order and completeness
	r.Floor("C04-R5", 5, "parser order, array append, scalar token, serialiser order, serialiser completeness")
	insertionOrderRule(c, r, "C04-R5")
	// "identical string contents": every key and string leaf of the untouched parts reaches the
	// line through encoding/json alone (an escaping shortcut alters contents outside the zones)
	c03Serialiser(c, r, p, "C04-R5")
	c04Parser(c, r)
	c04SerialiserComplete(c, r)

	// ---------------------------------------------------------------- R7 options are switched by their flags
	flagDefaultsRule(c, r, "C04-R7")

	// ---------------------------------------------------------------- R6 gate confinement
	r.Floor("C04-R6", 3, "three dispatch sites")
	allowedGate := map[string]bool{"c==COMMAND": true, "c==QUERY": true, "c==WRITE": true, "msg==Slow query": true}
	for _, d := range callsIn(root, func(k string, cc *ssa.Call) bool { return cc.Call.StaticCallee() == cmdFn }) {
		key, _ := getKeyOfValue(d.Call.Args[0])
		construct := fmt.Sprintf("%s:gate-of-dispatch(%s)", root.Name(), key)
		gated := false
		var extra []string
		for _, a := range p.atomsAt(d.Block()) {
			if a.Kind != "or" {
				continue
			}
			allStr := len(a.Or) > 0
			for _, dj := range a.Or {
				if dj.Kind != "strconst" || !dj.Pol {
					allStr = false
				}
			}
			if !allStr {
				continue
			}
			gated = true
			for _, dj := range a.Or {
				k, _ := getKeyOfValue(dj.X)
				if !allowedGate[k+"=="+dj.Name] {
					extra = append(extra, k+"=="+dj.Name)
				}
			}
		}
		r.Check(gated && len(extra) == 0, "C04-R6", construct, c.InstrPos(d),
			"dispatched only on lines of component COMMAND / QUERY / WRITE or message 'Slow query'",
			fmt.Sprintf("command documents of other lines are rewritten too: gated=%v extraDisjuncts=%v", gated, extra))
	}
}

func keysOfForms() []string {
	var out []string
	for k := range zoneForms {
		out = append(out, k)
	}
	sort.Strings(out)
	return out
}

// derivesFromElem: v is the element variable of slice loop l.
func derivesFromElem(v ssa.Value, l *IterLoop) bool {
	v = peel(v)
	u, ok := v.(*ssa.UnOp)
	if !ok {
		return false
	}
	ia, ok := u.X.(*ssa.IndexAddr)
	if !ok {
		return false
	}
	return ia.X == l.Coll
}

// c04Parser: arrays are appended one element per token, scalar tokens are returned as they are.
func c04Parser(c *Ctx, r *Report) {
	pv := c.parserFn()
	if pv == nil {
		r.Undecided("C04-R5", "parseValue", "-", "parser not found")
		return
	}
	// every member of an input object must have a place in the tree: the object loop stores the
	// members in a keyed container (ordered map Set), which holds a name once - a repeated
	// sibling name overwrites the earlier member in place unless the loop looks the name up
	// first and treats the repetition in some other way
	for _, l := range naturalLoops(pv) {
		for b := range l.Body {
			for _, in := range b.Instrs {
				call, ok := in.(*ssa.Call)
				if !ok || calleeKey(&call.Call) != omMethod("Set") || len(call.Call.Args) != 3 {
					continue
				}
				looked := false
				for b2 := range l.Body {
					for _, in2 := range b2.Instrs {
						if c2, ok := in2.(*ssa.Call); ok {
							k2 := calleeKey(&c2.Call)
							if (k2 == omMethod("Get") || k2 == omMethod("Has") || k2 == omMethod("GetElement")) && len(c2.Call.Args) >= 2 && c2.Call.Args[0] == call.Call.Args[0] {
								looked = true
							}
						}
					}
				}
				r.Check(looked, "C04-R5", "parser:repeated-member-names-kept", c.InstrPos(call),
					"the object loop looks a member's name up before storing it: a repeated name is noticed",
					"the parser stores every member with Set on an ordered map without looking the name up first: of two sibling members with the same name (legal JSON, and BSON documents may repeat a field) the later value overwrites the earlier one in the earlier one's position - one member is dropped and the order changes, also outside the redaction zones")
			}
		}
	}
	// array loop: a loop whose header calls More and whose body appends exactly the recursive result
	okArr := false
	detail := "array loop of the parser not recognised"
	for _, l := range naturalLoops(pv) {
		more := false
		for _, in := range l.Header.Instrs {
			if isCallTo(in, "(*encoding/json.Decoder).More") {
				more = true
			}
		}
		if !more {
			continue
		}
		var apps []*ssa.Call
		hasSet := false
		for b := range l.Body {
			for _, in := range b.Instrs {
				if call, ok := in.(*ssa.Call); ok {
					if calleeKey(&call.Call) == "builtin append" {
						apps = append(apps, call)
					}
					if calleeKey(&call.Call) == omMethod("Set") {
						hasSet = true
					}
				}
			}
		}
		if hasSet || len(apps) == 0 {
			continue
		}
		if len(apps) != 1 {
			detail = fmt.Sprintf("%d appends in the array loop", len(apps))
			continue
		}
		app := apps[0]
		vals := varargValues(app.Call.Args[1])
		fromRec := len(vals) == 1
		if fromRec {
			ex, ok := vals[0].(*ssa.Extract)
			fromRec = ok && ex.Index == 0
			if fromRec {
				rc, ok := ex.Tuple.(*ssa.Call)
				fromRec = ok && rc.Call.StaticCallee() == pv
			}
		}
		every := true
		for _, lt := range l.Latch {
			if !app.Block().Dominates(lt) {
				every = false
			}
		}
		// the accumulator is loop-carried: append(phi, v) feeds the phi
		carried := false
		if ph, ok := app.Call.Args[0].(*ssa.Phi); ok {
			for _, e := range ph.Edges {
				if e == ssa.Value(app) {
					carried = true
				}
			}
		}
		if fromRec && every && carried {
			okArr = true
			detail = "one append(arr, parsed element) per array element, in token order"
		} else {
			detail = fmt.Sprintf("array loop: appendsParsedElement=%v onEveryIteration=%v accumulates=%v", fromRec, every, carried)
		}
	}
	r.Check(okArr, "C04-R5", pv.Name()+":array-order", c.Pos(pv.Pos()), detail, "parser does not keep array elements one-to-one in order: "+detail)

	// scalar tokens: some return hands back the token value itself
	okTok := false
	allInstrs(pv, func(i ssa.Instruction) {
		ret, ok := i.(*ssa.Return)
		if !ok || len(ret.Results) != 2 {
			return
		}
		v := peel(resolveLocal(ret.Results[0]))
		if ex, ok := v.(*ssa.Extract); ok && ex.Index == 0 {
			if tc, ok := ex.Tuple.(*ssa.Call); ok && calleeKey(&tc.Call) == "(*encoding/json.Decoder).Token" {
				okTok = true
			}
		}
	})
	// and no return constructs a scalar from the token by conversion
	var conv []string
	allInstrs(pv, func(i ssa.Instruction) {
		ret, ok := i.(*ssa.Return)
		if !ok || len(ret.Results) != 2 {
			return
		}
		v := resolveLocal(ret.Results[0])
		if mi, ok := v.(*ssa.MakeInterface); ok {
			if !isOrderedMapPtr(mi.X.Type()) && !isAnySlice(mi.X.Type()) {
				conv = append(conv, c.InstrPos(i))
			}
		}
	})
	r.Check(okTok && len(conv) == 0, "C04-R5", pv.Name()+":scalar-token-unchanged", c.Pos(pv.Pos()),
		"scalar tokens (string, json.Number, bool, null) are returned exactly as the decoder produced them",
		fmt.Sprintf("scalar tokens are not handed on unchanged (returnsToken=%v, re-boxed returns at %v)", okTok, conv))
}

// c04SerialiserComplete: in every loop of the serialiser each iteration marshals the
// current member (key and value), with no path that skips it.
func c04SerialiserComplete(c *Ctx, r *Report) {
	ser := c.Fn("MarshalOrdered")
	if ser == nil {
		r.Undecided("C04-R5", "MarshalOrdered", "-", "serialiser not found")
		return
	}
	fns := c.pkgReach(ser)
	var list []*ssa.Function
	for f := range fns {
		list = append(list, f)
	}
	sort.Slice(list, func(i, j int) bool { return list[i].Name() < list[j].Name() })
	nLoops := 0
	for _, f := range list {
		for _, l := range iterLoops(f) {
			nLoops++
			construct := fmt.Sprintf("%s:%s-loop-complete", f.Name(), l.Kind)
			// witnesses: a call (json.Marshal / serialiser function) whose argument derives from the element
			isElemUse := func(v ssa.Value) bool {
				v = peel(v)
				switch x := v.(type) {
				case *ssa.UnOp:
					switch a := x.X.(type) {
					case *ssa.FieldAddr:
						if _, ok := elemFieldName(a); ok {
							return true
						}
					case *ssa.IndexAddr:
						return a.X == l.Coll
					}
				}
				return false
			}
			var valueCalls, keyCalls []*ssa.Call
			for b := range l.Loop.Body {
				for _, in := range b.Instrs {
					call, ok := in.(*ssa.Call)
					if !ok {
						continue
					}
					k := calleeKey(&call.Call)
					if k != "encoding/json.Marshal" && !fns[call.Call.StaticCallee()] {
						continue
					}
					for _, a := range call.Call.Args {
						if !isElemUse(a) {
							continue
						}
						isKey := false
						if u, ok := peel(a).(*ssa.UnOp); ok {
							if fa, ok := u.X.(*ssa.FieldAddr); ok {
								if n, _ := elemFieldName(fa); n == "Key" {
									isKey = true
								}
							}
						}
						if isKey {
							keyCalls = append(keyCalls, call)
						} else {
							valueCalls = append(valueCalls, call)
						}
					}
				}
			}
			needKey := l.Kind == "omap"
			okAll := len(valueCalls) > 0 && (!needKey || len(keyCalls) > 0)
			// every latch is dominated by a value call (and key call)
			dominated := func(calls []*ssa.Call) bool {
				for _, lt := range l.Loop.Latch {
					ok := false
					for _, call := range calls {
						if call.Block().Dominates(lt) {
							ok = true
						}
					}
					if !ok {
						return false
					}
				}
				return true
			}
			if okAll {
				okAll = dominated(valueCalls) && (!needKey || dominated(keyCalls))
			}
			r.Check(okAll, "C04-R5", construct, c.Pos(l.Loop.Header.Instrs[0].Pos()),
				"every iteration marshals the current member (key and value): nothing is skipped on the way out",
				"some iteration path of the serialiser does not marshal the current member: members can be dropped from the emitted line")
		}
	}
	if nLoops < 2 {
		r.Bad("C04-R5", ser.Name()+":loops", c.Pos(ser.Pos()), fmt.Sprintf("%d member loops recognised in the serialiser (object and array loop expected)", nLoops))
	}
}

// stageClassificationRule (C04-R4 / C01-R2): which vocabulary a stage is read with - the
// aggregation / core tables that type $limit, $skip ... as Exempt, or the Atlas Search tables -
// is decided per stage: wherever the stage walker is applied to a value, its search flag is
// either the classifier applied to that very value, or the flag the enclosing walker was
// itself given for the document the value sits in. A flag computed from another stage (the
// first of the pipeline, the previous one) reads later stages with the wrong tables: the
// arguments of $limit / $skip are then rewritten, literals under operators that only the
// other table knows stay in clear.
func stageClassificationRule(c *Ctx, r *Report, p *Prov, rule string) {
	sw := c.stageWalkerFn()
	cmdFn := p.cmdWalker()
	if sw == nil || cmdFn == nil {
		return
	}
	// the classifier: f(any) bool whose result is passed to the stage walker
	var classifier *ssa.Function
	si := -1
	for f := range p.Zone {
		for _, call := range callsIn(f, func(k string, cc *ssa.Call) bool { return cc.Call.StaticCallee() == sw }) {
			for ai, a := range call.Call.Args {
				if !isBoolType(a.Type()) {
					continue
				}
				if cc, ok := peel(a).(*ssa.Call); ok {
					if g := c.staticPkgCallee(&cc.Call); g != nil && len(g.Params) == 1 && isEmptyInterface(g.Params[0].Type()) {
						classifier, si = g, ai
					}
				}
			}
		}
	}
	if classifier == nil {
		r.Undecided(rule, "stage-walker:search-classifier", c.Pos(sw.Pos()), "no call of the stage walker takes its search flag from a classifier of the stage")
		return
	}
	r.Analysed["search_classifier"] = classifier.Name()
	searchClassifierAgreesRule(c, r, classifier, rule)
	boolRoleRule(c, r, p, c.placeholders(p).scalarFn, c.lookupFunctions(p), rule)
	n := 0
	for f := range p.Zone {
		for _, call := range callsIn(f, func(k string, cc *ssa.Call) bool { return cc.Call.StaticCallee() == sw }) {
			n++
			ok := false
			why := ""
			for _, vs := range sourcesAt(call.Call.Args[si], call.Block()) {
				v := peel(vs.Val)
				switch x := v.(type) {
				case *ssa.Parameter:
					ok = isBoolType(x.Type())
				case *ssa.Call:
					if c.staticPkgCallee(&x.Call) == classifier {
						ok = rootOf(peel(x.Call.Args[0])) == rootOf(peel(call.Call.Args[0])) || peel(x.Call.Args[0]) == peel(call.Call.Args[0])
						if !ok {
							why = "the classifier is applied to " + describeArg(x.Call.Args[0]) + ", not to the value that is walked"
						}
					} else {
						ok = false
						why = "the flag is the result of " + shortKey(calleeKey(&x.Call))
					}
				default:
					ok = false
					why = "the flag is " + describeArg(v)
				}
				if !ok {
					break
				}
			}
			construct := fmt.Sprintf("%s:search-flag-of-the-walked-stage", f.Name())
			r.Check(ok, rule, construct, c.InstrPos(call),
				"the search flag is the classifier of the walked value itself, or the enclosing walker's own flag",
				"the vocabulary this stage is read with is not decided on the stage itself ("+why+"): stages following a search stage are read with the search tables - $limit / $skip lose their Exempt typing and their arguments are rewritten under --redactNumbers")
		}
	}
	_ = n
}
