package main

import "fmt"

func debugDump(c *Ctx, what string) {
	fmt.Println("dump", what, "functions:", c.NumFuncs)
	for _, f := range c.SortedFuncs() {
		fmt.Println(" ", fnKey(f), c.Pos(f.Pos()))
	}
}

func runThoroughExtras(c *Ctx, r *Report, p *propDef) {}
