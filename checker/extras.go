package main

import (
	"fmt"
	"os"
	"strings"

	"golang.org/x/tools/go/ssa"
)

func debugDump(c *Ctx, what string) {
	if strings.HasPrefix(what, "phis:") {
		fn := c.Fn(strings.TrimPrefix(what, "phis:"))
		if fn == nil {
			fmt.Println("no such function")
			return
		}
		fn.WriteTo(os.Stdout)
		for _, b := range fn.Blocks {
			for _, in := range b.Instrs {
				if ph, ok := in.(*ssa.Phi); ok {
					fmt.Printf("phi %s in block %d alias=%v\n", ph.Name(), b.Index, phiAlias[ph])
				}
			}
		}
		return
	}
	if what == "loops" {
		p := c.prov()
		for f := range p.Zone {
			for _, ic := range p.walkerLoops(f) {
				fmt.Printf("%s out=%s whole=%v lenOK=%v early=%d multi=%v keyprob=%v sinks=%d\n", ic.construct(), ic.Out.Name(), ic.Whole, ic.LenOK, ic.EarlyExits, ic.MultiStore, ic.KeyProblems, len(ic.Sinks))
				for _, z := range ic.ZeroPaths {
					fmt.Printf("    zero-path justified=%v: %s\n", p.zeroPathJustified(ic, z), zeroPathString(z))
				}
			}
		}
		return
	}
	if what == "sinks" {
		p := c.prov()
		fmt.Println("problems:", p.Problems, "zone roots:", len(p.ZoneRoots), "zone fns:", len(p.Zone))
		for f := range p.Zone {
			fmt.Println("  zone fn", f.Name())
		}
		raw := 0
		ss := p.sinks(p.Zone)
		for _, s := range ss {
			if s.Raw {
				raw++
				fmt.Printf("RAW %-8s %-28s %s just=%q\n     atoms=%s\n", s.Kind, s.Fn.Name(), c.InstrPos(s.Instr), s.Just, atomsString(s.Atoms))
			}
		}
		fmt.Println("sinks:", len(ss), "raw:", raw)
		return
	}
	if what == "tables" {
		t := c.reconstructTables()
		fmt.Println("problems:", t.Problems, "sets:", t.SetCalls, "objects:", t.Objects, "enum:", t.EnumName, "strings:", t.StringSets)
		for _, e := range t.Entries() {
			fmt.Printf("%s\t%s\tobj%d\n", e.Key(), t.LeafName(e.Val), e.ObjID)
		}
		return
	}
	fmt.Println("dump", what, "functions:", c.NumFuncs)
	for _, f := range c.SortedFuncs() {
		fmt.Println(" ", fnKey(f), c.Pos(f.Pos()))
	}
}
