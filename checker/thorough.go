package main

import (
	"encoding/json"
	"fmt"
	"os"
	"os/exec"
	"path/filepath"
	"sort"
	"strings"
	"sync"

	"golang.org/x/tools/go/callgraph"
	"golang.org/x/tools/go/callgraph/cha"
	"golang.org/x/tools/go/callgraph/vta"
	"golang.org/x/tools/go/packages"
	"golang.org/x/tools/go/ssa"
	"golang.org/x/tools/go/ssa/ssautil"
)

// Thorough tier: the same rules as the quick tier (already run), plus
//   T1 configuration sweep: the package's file set under GOOS in {linux, darwin, windows}
//      with the hook tag on and off; when a configuration compiles a different file set the
//      property's rules are re-run on it (in a fresh process);
//   T2 whole-program reachability over the VTA call graph (go/ssa of every dependency):
//      from the roots of the property's effect rules through every non-standard-library
//      function (third-party modules included) to the standard-library sources the rule
//      forbids;
//   T3 self-validation: every mutant of the committed corpus that targets this property is
//      applied to a scratch copy of the repository (never to /repo) and analysed by a
//      fresh checker process - the rule must fire; benign edits must stay silent
//      (reported in the evidence and as SELFTEST lines, never part of the verdict);
//   T4 advisory cross-reference: errcheck / staticcheck / go vet output recorded in the
//      evidence (never a verdict).

func runThoroughExtras(c *Ctx, r *Report, p *propDef) {
	t1ConfigSweep(c, r, p)
	t2WholeProgram(c, r, p)
	t3SelfValidation(c, r, p)
	t4CrossReference(c, r, p)
}

// ---------------------------------------------------------------- T1

func t1ConfigSweep(c *Ctx, r *Report, p *propDef) {
	type cfgT struct {
		goos string
		tag  bool
	}
	var cfgs []cfgT
	for _, g := range []string{"linux", "darwin", "windows"} {
		for _, t := range []bool{true, false} {
			cfgs = append(cfgs, cfgT{g, t})
		}
	}
	base := ""
	results := map[string]any{}
	var differing []cfgT
	for _, cf := range cfgs {
		env := cleanGoEnv()
		env = append(env, "GOOS="+cf.goos, "CGO_ENABLED=0")
		pc := &packages.Config{Mode: packages.NeedName | packages.NeedFiles | packages.NeedCompiledGoFiles, Dir: c.RepoDir, Env: env}
		if cf.tag {
			pc.BuildFlags = []string{"-tags=verif"}
		}
		pkgs, err := packages.Load(pc, "./src")
		name := fmt.Sprintf("GOOS=%s,tag=%v", cf.goos, cf.tag)
		if err != nil || len(pkgs) != 1 {
			r.Undecided(r.Prop+"-T1", "config:"+name, "-", fmt.Sprintf("cannot list the package for this configuration: %v", err))
			continue
		}
		var files []string
		for _, f := range pkgs[0].CompiledGoFiles {
			files = append(files, filepath.Base(f))
		}
		sort.Strings(files)
		key := strings.Join(files, ",")
		results[name] = map[string]any{"files": len(files), "ignored": len(pkgs[0].IgnoredFiles)}
		if base == "" {
			base = key
		} else if key != base {
			differing = append(differing, cf)
		}
	}
	r.Extra["thorough_configurations"] = results
	if len(differing) == 0 {
		r.Trivial(r.Prop+"-T1", "configurations:same-file-set", "-", fmt.Sprintf("%d build configurations (3 GOOS x hook tag on/off) compile the same %d files: the analysed configuration stands for all", len(cfgs), strings.Count(base, ",")+1))
		return
	}
	// re-run the property on each differing configuration in a fresh process
	self, _ := os.Executable()
	for _, cf := range differing {
		name := fmt.Sprintf("GOOS=%s,tag=%v", cf.goos, cf.tag)
		tmp, _ := os.MkdirTemp("", "anonverif_cfg_")
		args := []string{"-prop", r.Prop, "-tier", "quick", "-repo", c.RepoDir, "-evidence", tmp, "-goos", cf.goos}
		if !cf.tag {
			args = append(args, "-notag")
		}
		out, err := exec.Command(self, args...).CombinedOutput()
		os.RemoveAll(tmp)
		if err != nil {
			var fired []string
			for _, l := range strings.Split(string(out), "\n") {
				if strings.HasPrefix(strings.TrimSpace(l), "VIOLATED") {
					fired = append(fired, strings.TrimSpace(l))
				}
			}
			r.Bad(r.Prop+"-T1", "config:"+name, "-", "the property's rules report violations under this build configuration: "+strings.Join(fired, " | "))
		} else {
			r.OK(r.Prop+"-T1", "config:"+name, "-", "a different file set is compiled under this configuration; the property's rules pass on it as well")
		}
	}
}

func cleanGoEnv() []string {
	var clean []string
	for _, e := range os.Environ() {
		if strings.HasPrefix(e, "GOWORK=") || strings.HasPrefix(e, "GOSUMDB=") || strings.HasPrefix(e, "GOFLAGS=") || strings.HasPrefix(e, "GOPROXY=") || strings.HasPrefix(e, "GOOS=") {
			continue
		}
		clean = append(clean, e)
	}
	return append(clean, "GOWORK=off", "GOFLAGS=-mod=mod", "GOPROXY=off")
}

// ---------------------------------------------------------------- T2

var wpGraph *callgraph.Graph

func (c *Ctx) wholeProgramGraph() *callgraph.Graph {
	if wpGraph == nil {
		wpGraph = vta.CallGraph(ssautil.AllFunctions(c.Prog), cha.CallGraph(c.Prog))
	}
	return wpGraph
}

func isStdPkg(path string) bool {
	first := path
	if i := strings.Index(path, "/"); i >= 0 {
		first = path[:i]
	}
	return !strings.Contains(first, ".")
}

type wpHit struct {
	Source string   `json:"source"`
	Chain  []string `json:"chain"`
}

// reachSources explores the whole-program call graph from roots through every function
// that is not in the standard library; standard-library functions are the boundary, and
// a boundary function whose name matches `forbidden` is a hit (with one witness chain).
func (c *Ctx) reachSources(roots []*ssa.Function, forbidden func(name string) bool) (explored int, thirdParty int, hits []wpHit) {
	g := c.wholeProgramGraph()
	parent := map[*ssa.Function]*ssa.Function{}
	seen := map[*ssa.Function]bool{}
	var q []*ssa.Function
	for _, rt := range roots {
		if rt != nil && !seen[rt] {
			seen[rt] = true
			q = append(q, rt)
		}
	}
	hitSeen := map[string]bool{}
	for len(q) > 0 {
		f := q[0]
		q = q[1:]
		explored++
		if f.Pkg != nil && f.Pkg != c.SPkg {
			thirdParty++
		}
		n := g.Nodes[f]
		if n == nil {
			continue
		}
		for _, e := range n.Out {
			callee := e.Callee.Func
			if callee == nil || seen[callee] {
				continue
			}
			pkgPath := ""
			if callee.Pkg != nil {
				pkgPath = callee.Pkg.Pkg.Path()
			} else if callee.Object() != nil && callee.Object().Pkg() != nil {
				pkgPath = callee.Object().Pkg().Path()
			}
			name := fnFullName(callee)
			if pkgPath != "" && isStdPkg(pkgPath) {
				if forbidden(name) && !hitSeen[name+"<-"+f.String()] {
					hitSeen[name+"<-"+f.String()] = true
					chain := []string{name, f.String()}
					for x := parent[f]; x != nil; x = parent[x] {
						chain = append(chain, x.String())
					}
					hits = append(hits, wpHit{Source: name, Chain: chain})
				}
				continue
			}
			seen[callee] = true
			parent[callee] = f
			q = append(q, callee)
		}
	}
	sort.Slice(hits, func(i, j int) bool { return strings.Join(hits[i].Chain, "<") < strings.Join(hits[j].Chain, "<") })
	return
}

type wpAllow struct{ Source, Caller, Reason string }

var wpAllowList []wpAllow
var wpAllowLoaded bool

func wholeProgramAllowed(h wpHit) (string, bool) {
	if !wpAllowLoaded {
		wpAllowLoaded = true
		self, _ := os.Executable()
		b, err := os.ReadFile(filepath.Join(filepath.Dir(filepath.Dir(self)), "rules", "wholeprogram_allow.json"))
		if err == nil {
			_ = json.Unmarshal(b, &wpAllowList)
		}
	}
	for _, a := range wpAllowList {
		if a.Source == h.Source && len(h.Chain) > 1 && a.Caller == h.Chain[1] {
			return a.Reason, true
		}
	}
	return "", false
}

func matchesAny(name string, prefixes []string) bool {
	for _, p := range prefixes {
		if strings.HasPrefix(name, p) {
			return true
		}
	}
	return false
}

var wpFileCreators = []string{"os.Create", "os.CreateTemp", "os.OpenFile", "os.WriteFile", "os.Mkdir", "os.MkdirAll", "os.MkdirTemp", "os.Rename", "os.Link", "os.Symlink", "io/ioutil.WriteFile", "io/ioutil.TempFile"}

func t2WholeProgram(c *Ctx, r *Report, p *propDef) {
	type job struct {
		rule, what string
		roots      []*ssa.Function
		forbidden  []string
		// allowed: source <- immediate caller pairs that are instances the quick rules already judge
		allowed func(h wpHit) bool
	}
	var jobs []job
	an := c.anchors()
	linePath := func() []*ssa.Function {
		var out []*ssa.Function
		for f := range c.pkgReach(c.Fn("RedactMongoLog"), c.Fn("MarshalOrdered")) {
			out = append(out, f)
		}
		if an.StreamFn != nil {
			out = append(out, an.StreamFn)
		}
		return out
	}
	switch r.Prop {
	case "C06", "C02", "C19":
		jobs = append(jobs, job{rule: r.Prop + "-T2", what: "time / randomness / environment / file / network sources reachable from the per-line functions", roots: linePath(), forbidden: nondetPrefixes,
			allowed: func(h wpHit) bool {
				// a direct call from a function of the package whose every call of that source the
				// quick rule judged diagnostic-only (the result reaches stderr and nothing else)
				if len(h.Chain) < 2 {
					return false
				}
				for _, f := range c.SortedFuncs() {
					if f.String() != h.Chain[1] {
						continue
					}
					n, okAll := 0, true
					allInstrs(f, func(i ssa.Instruction) {
						cc := callCommonOf(i)
						if cc == nil || calleeKey(cc) != h.Source {
							return
						}
						n++
						if ok, _ := diagnosticOnlySourceCall(c, i, c.SortedFuncs()); !ok {
							okAll = false
						}
					})
					return n > 0 && okAll
				}
				return false
			}})
	case "C10", "C09":
		jobs = append(jobs, job{rule: r.Prop + "-T2", what: "time / randomness / environment sources reachable from Encrypt / Decrypt (third-party code included)", roots: []*ssa.Function{c.Fn("Encrypt"), c.Fn("Decrypt")}, forbidden: nondetPrefixes})
	case "C13", "C12", "C15":
		jobs = append(jobs, job{rule: r.Prop + "-T2", what: "time / randomness / environment sources reachable from the pseudonym function", roots: []*ssa.Function{c.Fn("HashName")}, forbidden: nondetPrefixes})
	case "C17", "C16":
		var dl []*ssa.Function
		for _, f := range c.SortedFuncs() {
			if strings.HasSuffix(fnKey(f), "DownloadClusterLogs") || strings.HasSuffix(fnKey(f), "downloadClusterLogsForHost") {
				dl = append(dl, f)
			}
		}
		jobs = append(jobs, job{rule: r.Prop + "-T2", what: "file-creating calls reachable from the Atlas download (third-party code included)", roots: dl, forbidden: wpFileCreators,
			allowed: func(h wpHit) bool {
				return h.Source == "os.CreateTemp" && len(h.Chain) > 1 && strings.HasSuffix(h.Chain[1], "downloadClusterLogsForHost")
			}})
	case "C20":
		var dl []*ssa.Function
		for _, f := range c.SortedFuncs() {
			if strings.Contains(fnKey(f), "AtlasClient") {
				dl = append(dl, f)
			}
		}
		jobs = append(jobs, job{rule: "C20-T2", what: "process-environment writers and loggers reachable from the Atlas client (where a credential could be parked or printed by third-party code)", roots: dl,
			forbidden: []string{"os.Setenv", "log.Print", "log.Fatal", "log.Panic", "(*log.Logger).Print", "(*log.Logger).Fatal", "(*log.Logger).Output", "log/slog.", "(*log/slog."}})
	}
	for _, j := range jobs {
		var roots []*ssa.Function
		for _, f := range j.roots {
			if f != nil {
				roots = append(roots, f)
			}
		}
		if len(roots) == 0 {
			r.Undecided(j.rule, "whole-program:roots", "-", "no root function found for the whole-program query")
			continue
		}
		explored, third, hits := c.reachSources(roots, func(n string) bool { return matchesAny(n, j.forbidden) })
		var bad []wpHit
		reviewed := 0
		for _, h := range hits {
			if j.allowed != nil && j.allowed(h) {
				continue
			}
			if reason, ok := wholeProgramAllowed(h); ok {
				reviewed++
				r.OK(j.rule, "whole-program:reviewed:"+h.Source+"<-"+h.Chain[1], "-", "reviewed instance (rules/wholeprogram_allow.json): "+reason)
				continue
			}
			bad = append(bad, h)
		}
		r.Extra["whole_program_"+j.rule] = map[string]any{"roots": len(roots), "functions_explored": explored, "third_party_functions": third, "hits": hits}
		if len(bad) == 0 {
			r.OK(j.rule, "whole-program:"+r.Prop, "-", fmt.Sprintf("VTA call graph of the whole program: %d functions explored from %d roots (%d outside the package, third-party modules included), none of the forbidden standard-library sources is reachable (%s)", explored, len(roots), third, j.what))
		} else {
			for _, h := range bad {
				ch := h.Chain
				if len(ch) > 6 {
					ch = append(ch[:5:5], "...", ch[len(ch)-1])
				}
				r.Bad(j.rule, "whole-program:"+h.Source+"<-"+h.Chain[1], "-", fmt.Sprintf("%s: reachable through %s", j.what, strings.Join(ch, " <- ")))
			}
		}
	}
}

// ---------------------------------------------------------------- T3

type mutantDef struct {
	Name   string   `json:"name"`
	Expect []string `json:"expect"`
	Kind   string   `json:"kind"`
	Props  []string `json:"props"`
	Edits  []struct {
		File, Old, New string
		Count          int
	} `json:"edits"`
}

func t3SelfValidation(c *Ctx, r *Report, p *propDef) {
	dir := os.Getenv("VERIF_MUTANTS")
	if dir == "" {
		self, _ := os.Executable()
		dir = filepath.Join(filepath.Dir(filepath.Dir(self)), "checker", "testdata", "mutants")
	}
	files, _ := filepath.Glob(filepath.Join(dir, "*.json"))
	var ms []mutantDef
	for _, f := range files {
		b, err := os.ReadFile(f)
		if err != nil {
			continue
		}
		var xs []mutantDef
		if json.Unmarshal(b, &xs) == nil {
			ms = append(ms, xs...)
		}
	}
	var mine []mutantDef
	for _, m := range ms {
		rel := false
		for _, e := range m.Expect {
			if strings.HasPrefix(e, r.Prop+"-") {
				rel = true
			}
		}
		if m.Kind == "benign" {
			for _, pp := range m.Props {
				if pp == r.Prop {
					rel = true
				}
			}
		}
		if rel {
			mine = append(mine, m)
		}
	}
	if len(mine) == 0 {
		r.Extra["selftest"] = map[string]any{"mutants": 0, "note": "no mutant corpus found at " + dir}
		return
	}
	self, _ := os.Executable()
	type res struct {
		Name   string   `json:"name"`
		Kind   string   `json:"kind"`
		OK     bool     `json:"ok"`
		Fired  []string `json:"fired"`
		Detail string   `json:"detail,omitempty"`
	}
	results := make([]res, len(mine))
	sem := make(chan struct{}, 4)
	var wg sync.WaitGroup
	for i, m := range mine {
		wg.Add(1)
		go func(i int, m mutantDef) {
			defer wg.Done()
			sem <- struct{}{}
			defer func() { <-sem }()
			kind := m.Kind
			if kind == "" {
				kind = "mutant"
			}
			rs := res{Name: m.Name, Kind: kind}
			tmp, err := os.MkdirTemp("", "anonverif_mut_")
			if err != nil {
				rs.Detail = err.Error()
				results[i] = rs
				return
			}
			defer os.RemoveAll(tmp)
			if err := copyRepo(c.RepoDir, tmp); err != nil {
				rs.Detail = "copy: " + err.Error()
				results[i] = rs
				return
			}
			for _, e := range m.Edits {
				pth := filepath.Join(tmp, e.File)
				b, err := os.ReadFile(pth)
				if err != nil || !strings.Contains(string(b), e.Old) {
					rs.Detail = "anchor text of the mutant not found in " + e.File + " (source drifted; mutant skipped)"
					results[i] = rs
					return
				}
				n := e.Count
				if n == 0 {
					n = 1
				}
				_ = os.WriteFile(pth, []byte(strings.Replace(string(b), e.Old, e.New, n)), 0o644)
			}
			ev := filepath.Join(tmp, "_ev")
			cmd := exec.Command(self, "-prop", r.Prop, "-tier", "quick", "-repo", tmp, "-evidence", ev)
			out, _ := cmd.CombinedOutput()
			fired := map[string]bool{}
			loadFail := false
			for _, l := range strings.Split(string(out), "\n") {
				t := strings.Fields(strings.TrimSpace(l))
				if len(t) >= 2 && t[0] == "VIOLATED" {
					fired[t[1]] = true
					if strings.HasSuffix(t[1], "-load") {
						loadFail = true
					}
				}
			}
			for k := range fired {
				rs.Fired = append(rs.Fired, k)
			}
			sort.Strings(rs.Fired)
			if loadFail {
				rs.Detail = "mutant does not type-check"
			} else if kind == "benign" {
				rs.OK = len(fired) == 0
			} else {
				rs.OK = true
				for _, e := range m.Expect {
					if strings.HasPrefix(e, r.Prop+"-") && !fired[e] {
						rs.OK = false
					}
				}
			}
			results[i] = rs
		}(i, m)
	}
	wg.Wait()
	nOK, nSkip := 0, 0
	var failed []string
	for _, rs := range results {
		switch {
		case rs.OK:
			nOK++
		case strings.Contains(rs.Detail, "skipped"):
			nSkip++
		default:
			failed = append(failed, rs.Name)
			fmt.Printf("SELFTEST-MISS property=%s %s (%s) fired=%v %s\n", r.Prop, rs.Name, rs.Kind, rs.Fired, rs.Detail)
		}
	}
	r.Extra["selftest"] = map[string]any{"cases": len(results), "as_expected": nOK, "skipped": nSkip, "not_as_expected": failed, "results": results,
		"note": "each case is a small compiling edit applied to a scratch copy of the repository and analysed by a fresh checker process; mutants must make the named rule fire, benign edits must stay silent; informational, not part of the verdict"}
	fmt.Printf("  selftest: %d cases, %d as expected, %d skipped, %d not as expected\n", len(results), nOK, nSkip, len(failed))
}

func copyRepo(src, dst string) error {
	return filepath.Walk(src, func(path string, info os.FileInfo, err error) error {
		if err != nil {
			return err
		}
		rel, _ := filepath.Rel(src, path)
		if rel == ".git" || strings.HasPrefix(rel, ".git"+string(filepath.Separator)) {
			if info.IsDir() {
				return filepath.SkipDir
			}
			return nil
		}
		target := filepath.Join(dst, rel)
		if info.IsDir() {
			return os.MkdirAll(target, 0o755)
		}
		if !info.Mode().IsRegular() {
			return nil
		}
		b, err := os.ReadFile(path)
		if err != nil {
			return err
		}
		return os.WriteFile(target, b, 0o644)
	})
}

// ---------------------------------------------------------------- T4

var crossRefOnce sync.Once
var crossRef map[string]any

func t4CrossReference(c *Ctx, r *Report, p *propDef) {
	crossRefOnce.Do(func() {
		crossRef = map[string]any{}
		for _, tool := range [][]string{{"go", "vet", "./src"}, {"errcheck", "./src"}, {"staticcheck", "./src"}} {
			if _, err := exec.LookPath(tool[0]); err != nil {
				crossRef[tool[0]] = "not installed"
				continue
			}
			cmd := exec.Command(tool[0], tool[1:]...)
			cmd.Dir = c.RepoDir
			cmd.Env = cleanGoEnv()
			out, _ := cmd.CombinedOutput()
			var lines []string
			for _, l := range strings.Split(strings.TrimSpace(string(out)), "\n") {
				if l != "" && !strings.Contains(l, "WARNING") {
					lines = append(lines, l)
				}
			}
			if len(lines) > 25 {
				lines = append(lines[:25], fmt.Sprintf("... %d more", len(lines)-25))
			}
			crossRef[strings.Join(tool, " ")] = lines
		}
	})
	r.Extra["cross_reference_advisory"] = crossRef
}
