package main

import (
	"fmt"
	"go/token"
	"net/url"
	"sort"
	"strings"

	"golang.org/x/tools/go/ssa"
)

func init() {
	register(&propDef{
		ID:          "C16",
		Run:         ruleC16,
		Explanation: "Decides the wiring of Atlas mode (structural necessary conditions of C16): the --atlasLogStartDate/--atlasLogEndDate values reach, through setters, globals, the window function, the download call and the per-host call, exactly the Sprintf operands that follow 'startDate=' / 'endDate=' in the constant URL format (no crossing, no break); project id, host and cluster name reach their path segments; the default window is (now-604800, now) from one time.Now, returned only where both dates are zero, and the given dates are never returned when both are zero; one per-host call per element of the host list in order, one client.Do per function and no loop around it (no retry); every request URL starts with the client's BaseURL, which is stored only from an https cloud.mongodb.com constant; the temp file is written only by io.Copy from the response body; output <outputFile>.<i> is created from the flag and the loop index and is the writer of the processing call for file i in the same iteration. NOT decided: HTTP behaviour, digest challenge rounds, gzip payload handling, SRV resolution.",
		RuleText:    "obligations = positions of the URL format strings (operand taint by role), window function returns, host-loop shape, request constructors, BaseURL stores, temp-file writers, per-file loop pairing",
	})
}

// fmtSegments splits a constant format into the literal text preceding each verb.
func fmtSegments(format string) (pre []string, verbs []string) {
	idx := fmtVerbRe.FindAllStringIndex(format, -1)
	last := 0
	for _, m := range idx {
		v := format[m[0]:m[1]]
		if v == "%%" {
			continue
		}
		pre = append(pre, format[last:m[0]])
		verbs = append(verbs, v)
		last = m[1]
	}
	return
}

func roleTaint(c *Ctx, noArith bool, seeds ...ssa.Value) *Taint {
	t := NewTaint(c)
	t.NoArith = noArith
	t.LibThrough = func(call *ssa.Call, key string) bool { return false }
	t.Run(seeds...)
	return t
}

func ruleC16(c *Ctx, r *Report) {
	an := c.anchors()
	if !requireAnchors(r, an, "C16-anchor", "redact", "stream") {
		return
	}
	a := c.atlasAnchors(r, "C16-anchor")
	if a == nil || a.info == nil {
		r.Undecided("C16-anchor", "atlas-functions", "-", "Atlas functions not found")
		return
	}
	cl := an.RedactClosure
	win := c.Fn("GetStartAndEndDates")
	if win == nil {
		r.Undecided("C16-anchor", "GetStartAndEndDates", "-", "window function not found")
		return
	}
	for _, fl := range []string{"atlasLogStartDate", "atlasLogEndDate", "atlasProjectId", "atlasClusterName", "outputFile"} {
		if an.FlagAlloc[fl] == nil {
			r.Undecided("C16-anchor", "flag:"+fl, "-", "flag not bound")
			return
		}
	}
	// ---- R1: positional flow
	r.Floor("C16-R1", 11, "window returns (2), startDate=, endDate=, groups/ (2), clusters/ (2), escaped segments (4)")
	tS := roleTaint(c, true, an.FlagAlloc["atlasLogStartDate"])
	tE := roleTaint(c, true, an.FlagAlloc["atlasLogEndDate"])
	// (a) flags -> results of the window function
	allInstrs(win, func(i ssa.Instruction) {
		ret, ok := i.(*ssa.Return)
		if !ok || len(ret.Results) != 2 {
			return
		}
		r0, r1 := resolveLocal(ret.Results[0]), resolveLocal(ret.Results[1])
		s0, e0, s1, e1 := tS.Has(r0), tE.Has(r0), tS.Has(r1), tE.Has(r1)
		if !s0 && !e0 && !s1 && !e1 {
			return // default-window return: R2
		}
		r.Check(s0 && !e0 && e1 && !s1, "C16-R1", win.Name()+":explicit-window-return", c.InstrPos(i),
			"result #0 carries --atlasLogStartDate only, result #1 --atlasLogEndDate only",
			fmt.Sprintf("explicit window crossed or broken: result#0 start=%v end=%v, result#1 start=%v end=%v", s0, e0, s1, e1))
	})
	// (b) results of the window call in the command -> URL operands
	var sSeeds, eSeeds []ssa.Value
	for _, wc := range callsIn(cl, func(k string, _ *ssa.Call) bool { return k == fnFullName(win) }) {
		sSeeds = append(sSeeds, extractOf(wc, 0))
		eSeeds = append(eSeeds, extractOf(wc, 1))
	}
	if len(sSeeds) == 0 {
		r.Bad("C16-R1", cl.Name()+":window-call", c.Pos(cl.Pos()), "the redact command does not obtain the window from the window function")
	}
	// (b') the window function reads package-level variables that the command fills through
	// setters: every call of it comes after those setters on every path (a window resolved "up
	// front" reads the zero values and always yields the default seven days)
	{
		read := map[*ssa.Global]bool{}
		for f := range c.pkgReach(win) {
			allInstrs(f, func(i ssa.Instruction) {
				if ld, ok := i.(*ssa.UnOp); ok && ld.Op == token.MUL {
					if g, ok := ld.X.(*ssa.Global); ok && g.Pkg == c.SPkg {
						read[g] = true
					}
				}
			})
		}
		// setter calls in the command: calls of package functions that store into those globals
		setterOf := map[*ssa.Function]*ssa.Global{}
		for _, f := range c.SortedFuncs() {
			allInstrs(f, func(i ssa.Instruction) {
				if st, ok := i.(*ssa.Store); ok {
					if g, ok := st.Addr.(*ssa.Global); ok && read[g] && len(f.Blocks) == 1 {
						setterOf[f] = g
					}
				}
			})
		}
		for _, wc := range callsIn(cl, func(k string, _ *ssa.Call) bool { return k == fnFullName(win) }) {
			var late []string
			for g := range read {
				// some setter call of g dominates the window call
				dominated := false
				hasSetter := false
				allInstrs(cl, func(i ssa.Instruction) {
					sc, ok := i.(*ssa.Call)
					if !ok {
						return
					}
					callee := c.staticPkgCallee(&sc.Call)
					if callee == nil || setterOf[callee] != g {
						return
					}
					hasSetter = true
					if sc.Block() == wc.Block() {
						if instrIndex(sc) < instrIndex(wc) {
							dominated = true
						}
					} else if sc.Block().Dominates(wc.Block()) {
						dominated = true
					}
				})
				if hasSetter && !dominated {
					late = append(late, g.Name())
				}
			}
			sort.Strings(late)
			r.Check(len(late) == 0, "C16-R1", cl.Name()+":window-read-after-its-setters", c.InstrPos(wc),
				"the window function is called after the setters of the variables it reads",
				fmt.Sprintf("the window function is called before the command has stored the flag values into %v: it reads their zero values and returns the default window, whatever --atlasLogStartDate / --atlasLogEndDate say", late))
		}
	}
	t0 := roleTaint(c, true, sSeeds...)
	t1 := roleTaint(c, true, eSeeds...)
	tProj := roleTaint(c, true, an.FlagAlloc["atlasProjectId"])
	tClu := roleTaint(c, true, an.FlagAlloc["atlasClusterName"])
	checkURL := func(fn *ssa.Function, wantHostRole string) {
		for _, nr := range callsIn(fn, func(k string, _ *ssa.Call) bool {
			return k == "net/http.NewRequestWithContext" || k == "net/http.NewRequest"
		}) {
			urlArg := nr.Call.Args[len(nr.Call.Args)-2]
			shapes := urlShapes(urlArg, nr.Block())
			if len(shapes) == 0 {
				r.Undecided("C16-R1", fn.Name()+":url", c.InstrPos(nr), "request URL cannot be read")
				continue
			}
			for si, shape := range shapes {
				sfx := ""
				if si > 0 {
					sfx = fmt.Sprintf("~alt%d", si)
				}
				format := shape.text()
				pre, ops := shape.operands()
				esc := shape.escaped()
				sp := nr
				for i, p := range pre {
					op := peel(ops[i])
					if strings.HasSuffix(p, "groups/") || strings.HasSuffix(p, "clusters/") {
						// a name is one path segment: `?`, `#`, `/` or `%` in it (a percent-decoded
						// host of the connection string, a mistyped project id) must not re-route
						// the request or cut the window off
						what := "groups/"
						if strings.HasSuffix(p, "clusters/") {
							what = "clusters/"
						}
						r.Check(i < len(esc) && esc[i], "C16-R1", fn.Name()+":url-segment-escaped("+what+")"+sfx, c.InstrPos(sp),
							"the segment after "+what+" is inserted through url.PathEscape",
							"the name after '"+what+"' is pasted into the request URL as it is: a `?`, `#`, `/` or `%` in it changes the path that is requested or cuts the query (the window) off - the request is no longer the download of that host / project")
					}
					switch {
					case strings.HasSuffix(p, "startDate="):
						r.Check(t0.Has(op) && !t1.Has(op), "C16-R1", fn.Name()+":url(startDate=)"+sfx, c.InstrPos(sp), "operand after startDate= is the window start", "the operand after 'startDate=' is not the start of the requested window (crossed or lost)")
					case strings.HasSuffix(p, "endDate="):
						r.Check(t1.Has(op) && !t0.Has(op), "C16-R1", fn.Name()+":url(endDate=)"+sfx, c.InstrPos(sp), "operand after endDate= is the window end", "the operand after 'endDate=' is not the end of the requested window (crossed or lost)")
					case strings.HasSuffix(p, "groups/"):
						r.Check(tProj.Has(op) && !tClu.Has(op), "C16-R1", fn.Name()+":url(groups/)"+sfx, c.InstrPos(sp), "segment after groups/ is --atlasProjectId", "the segment after 'groups/' is not the project id")
					case strings.HasSuffix(p, "clusters/"):
						if wantHostRole == "cluster" {
							r.Check(tClu.Has(op) && !tProj.Has(op), "C16-R1", fn.Name()+":url(clusters/)"+sfx, c.InstrPos(sp), "segment after clusters/ is --atlasClusterName", "the segment after 'clusters/' is not the cluster name")
						} else {
							// must be the host parameter bound from the host-loop element (R3 checks the binding)
							_, isParam := op.(*ssa.Parameter)
							r.Check(isParam && !tClu.Has(op) && !tProj.Has(op), "C16-R1", fn.Name()+":url(clusters/)"+sfx, c.InstrPos(sp), "segment after clusters/ is the per-host parameter", "the segment after 'clusters/' is not the host being downloaded")
						}
					case i == 0 && p == "":
						// BaseURL: R4
					default:
						r.Undecided("C16-R1", fn.Name()+":url(?)"+sfx, c.InstrPos(sp), fmt.Sprintf("an operand of the request URL follows %q: not a position the rule knows (URL shape %q)", p, format))
					}
				}
				if strings.Contains(format, "startDate=") != strings.Contains(format, "endDate=") {
					r.Bad("C16-R1", fn.Name()+":url(window)"+sfx, c.InstrPos(sp), "URL carries only one end of the window")
				}
				if fn == a.perHost && !strings.Contains(format, "startDate=") {
					r.Bad("C16-R1", fn.Name()+":url(window)"+sfx, c.InstrPos(sp), "log URL does not carry the requested window")
				}
			}
		}
	}
	checkURL(a.perHost, "host")
	checkURL(a.info, "cluster")

	// ---- R2: default window
	r.Floor("C16-R2", 2, "default return + duration constant")
	// a test of one of the two dates against zero: which date, and whether the fact says "zero"
	zeroTest := func(f Fact) (string, bool, bool) {
		bo, ok := f.Cond.(*ssa.BinOp)
		if !ok || (bo.Op != token.EQL && bo.Op != token.NEQ) {
			return "", false, false
		}
		x, y := bo.X, bo.Y
		if n, isC := constInt(x); isC && n == 0 {
			x, y = y, x
		}
		if n, isC := constInt(y); !isC || n != 0 {
			return "", false, false
		}
		x = resolveLocal(x)
		switch {
		case tS.Has(x) && !tE.Has(x):
			return "S", (bo.Op == token.EQL) == f.Pol, true
		case tE.Has(x) && !tS.Has(x):
			return "E", (bo.Op == token.EQL) == f.Pol, true
		}
		return "", false, false
	}
	nZeroTests := 0 // a window function that does not test the dates against zero is of a shape this rule does not read
	for _, b := range win.Blocks {
		if ifi, ok := b.Instrs[len(b.Instrs)-1].(*ssa.If); ok {
			for _, f := range expandFacts([]Fact{{ifi.Cond, true, ifi}}) {
				if _, _, ok := zeroTest(f); ok {
					nZeroTests++
				}
			}
		}
	}
	allInstrs(win, func(i ssa.Instruction) {
		ret, ok := i.(*ssa.Return)
		if !ok || len(ret.Results) != 2 {
			return
		}
		r0, r1 := resolveLocal(ret.Results[0]), resolveLocal(ret.Results[1])
		if tS.Has(r0) || tE.Has(r0) || tS.Has(r1) || tE.Has(r1) {
			return
		}
		okShape := false
		detail := "default window is not (now - duration, now)"
		if sub, ok := r0.(*ssa.BinOp); ok && sub.Op == token.SUB && sub.X == r1 {
			if isUnixNow(r1) {
				if ld, ok := sub.Y.(*ssa.UnOp); ok {
					if g, ok := ld.X.(*ssa.Global); ok && g.Name() == "defaultLogDuration" {
						okShape = true
						detail = "(now - defaultLogDuration, now) with a single time.Now().Unix()"
					}
				}
				if n, ok := constInt(sub.Y); ok && n == 604800 {
					okShape = true
					detail = "(now - 604800, now)"
				}
			}
		}
		r.Check(okShape, "C16-R2", win.Name()+":default-window-return", c.InstrPos(i), detail, detail)
		// guarded by both dates being zero
		zs, ze := false, false
		for _, f := range allFacts(ret.Block()) {
			if role, isZero, ok := zeroTest(f); ok && isZero {
				zs = zs || role == "S"
				ze = ze || role == "E"
			}
		}
		if nZeroTests > 0 {
			r.Check(zs && ze, "C16-R2", win.Name()+":default-window-guard", c.InstrPos(i), "the default window is returned only where both dates are zero (none given)",
				"the default window is returned on a path where a given date is not known to be zero: a requested window is replaced by the last seven days")
		}
	})
	// the explicit return is not reached with both dates zero: every path to it passes a
	// test that found one of them non-zero
	if nZeroTests > 0 && len(win.Blocks) > 0 {
		// walk the function assuming both dates are zero on entry; a test is decided where it is a
		// boolean combination of zero tests (a phi is read for the edge the walk came by)
		type st struct{ b, from *ssa.BasicBlock }
		var eval func(v ssa.Value, at st, depth int) (bool, bool)
		eval = func(v ssa.Value, at st, depth int) (bool, bool) {
			if depth > 6 {
				return false, false
			}
			if b, ok := constBool(v); ok {
				return b, true
			}
			switch x := v.(type) {
			case *ssa.UnOp:
				if x.Op == token.NOT {
					b, ok := eval(x.X, at, depth+1)
					return !b, ok
				}
			case *ssa.BinOp:
				if _, isZero, ok := zeroTest(Fact{x, true, nil}); ok {
					return isZero, true
				}
			case *ssa.Phi:
				if x.Block() == at.b && at.from != nil {
					for pi, p := range at.b.Preds {
						if p == at.from {
							return eval(x.Edges[pi], st{at.from, nil}, depth+1)
						}
					}
				}
			}
			return false, false
		}
		reach := map[*ssa.BasicBlock]bool{win.Blocks[0]: true}
		seenSt := map[st]bool{{win.Blocks[0], nil}: true}
		work := []st{{win.Blocks[0], nil}}
		for len(work) > 0 {
			cur := work[0]
			work = work[1:]
			b := cur.b
			ifi, _ := b.Instrs[len(b.Instrs)-1].(*ssa.If)
			for si, succ := range b.Succs {
				if ifi != nil && b.Succs[0] != b.Succs[1] {
					if val, known := eval(ifi.Cond, cur, 0); known && val != (si == 0) {
						continue
					}
				}
				reach[succ] = true
				if n := (st{succ, b}); !seenSt[n] {
					seenSt[n] = true
					work = append(work, n)
				}
			}
		}
		allInstrs(win, func(i ssa.Instruction) {
			ret, ok := i.(*ssa.Return)
			if !ok || len(ret.Results) != 2 {
				return
			}
			r0, r1 := resolveLocal(ret.Results[0]), resolveLocal(ret.Results[1])
			if !(tS.Has(r0) || tE.Has(r0) || tS.Has(r1) || tE.Has(r1)) {
				return
			}
			r.Check(!reach[ret.Block()], "C16-R2", win.Name()+":explicit-window-guard", c.InstrPos(i), "the given dates are returned only past a test that found one of them non-zero",
				"the return of the given dates is reached with neither date given: the request asks for the window (0, 0) instead of the last seven days")
		})
	}
	if g := c.GlobalVar("defaultLogDuration"); g != nil {
		okConst, others := false, 0
		for _, f := range c.SortedFuncs() {
			allInstrs(f, func(i ssa.Instruction) {
				if st, ok := i.(*ssa.Store); ok && st.Addr == ssa.Value(g) {
					if n, ok := constInt(st.Val); ok && n == 604800 && f.Name() == "init" {
						okConst = true
					} else {
						others++
					}
				}
			})
		}
		r.Check(okConst && others == 0, "C16-R2", "defaultLogDuration=604800", c.Pos(g.Pos()), "7 days, never reassigned", "default window is not the constant 7 days (604800 s) or is reassigned")
	} else {
		r.Trivial("C16-R2", "defaultLogDuration:inlined", "-", "duration constant is inlined (checked at the return)")
	}

	// ---- R3: one request per host, in order, no retry
	r.Floor("C16-R3", 5, "host list source, loop, per-host call, client.Do x2, host extraction")
	perHostCalls := callsIn(a.download, func(k string, _ *ssa.Call) bool { return k == fnFullName(a.perHost) })
	hostsFn := c.Fn("GetHostsFromConnectionString")
	if len(perHostCalls) != 1 {
		r.Bad("C16-R3", a.download.Name()+":per-host-call-count", c.Pos(a.download.Pos()), fmt.Sprintf("%d per-host download calls (exactly one per host expected)", len(perHostCalls)))
	} else {
		pc := perHostCalls[0]
		loops := iterLoops(a.download)
		l := innermostLoopOf(loops, pc.Block())
		okLoop := l != nil && l.Kind == "slice"
		detail := "per-host call is not inside a range loop over the host list"
		if okLoop {
			// only one enclosing loop (no retry loop around it)
			nEnclosing := 0
			for _, ll := range loops {
				if ll.Loop.Body[pc.Block()] {
					nEnclosing++
				}
			}
			src := ""
			if ex, ok := peel(l.Coll).(*ssa.Extract); ok && ex.Index == 0 {
				if hc, ok := ex.Tuple.(*ssa.Call); ok && hostsFn != nil && hc.Call.StaticCallee() == hostsFn {
					src = "hosts"
					// its argument: info.ConnectionStrings.Standard
					argOK := false
					if ld, ok := hc.Call.Args[0].(*ssa.UnOp); ok {
						if fa, ok := ld.X.(*ssa.FieldAddr); ok {
							_, fv := fieldOf(fa)
							if fv != nil && fv.Name() == "Standard" {
								argOK = true
							}
						}
					}
					r.Check(argOK, "C16-R3", a.download.Name()+":host-list-source", c.InstrPos(hc), "host list derived from connectionStrings.standard of the cluster description", "host list is not derived from the standard connection string")
				}
			}
			everyIter := l.Loop.everyIteration(pc.Block())
			// host argument = element at loop index
			hostArgOK := false
			for _, arg := range pc.Call.Args {
				if ld, ok := arg.(*ssa.UnOp); ok {
					if ia, ok := ld.X.(*ssa.IndexAddr); ok && ia.X == l.Coll && ia.Index == l.Idx {
						hostArgOK = true
					}
				}
			}
			// appended in order
			appended := false
			res0 := extractOf(pc, 0)
			allInstrs(a.download, func(i ssa.Instruction) {
				if ac, ok := i.(*ssa.Call); ok && calleeKey(&ac.Call) == "builtin append" && isAccumulator(ac.Call.Args[0], l.Loop.Header, l.Loop.Region()) {
					for _, v := range varargValues(ac.Call.Args[1]) {
						if res0 != nil && v == ssa.Value(res0) && l.Loop.everyIteration(ac.Block()) {
							// in every completed iteration: the list stays aligned with the host list
							appended = true
						}
					}
				}
			})
			// a host whose download failed ends the whole download with an error (skipping it
			// would shift every later file onto the wrong <output>.<i>)
			okErr, errDetail := checkCallErrHandled(pc, true, nil)
			r.Check(okErr, "C16-R3", a.download.Name()+":per-host-failure-is-fatal", c.InstrPos(pc),
				"a failed host download makes the download fail: "+errDetail,
				"a failed host download does not end the download with an error ("+errDetail+"): the file list no longer lines up with the host list, so <output>.<i> holds another host's log and the run reports success")
			okLoop = src == "hosts" && nEnclosing == 1 && everyIter && hostArgOK && appended
			detail = fmt.Sprintf("rangesOverHostList=%v enclosingLoops=%d callEveryIteration=%v hostArgIsElement=%v resultAppendedInOrder=%v", src == "hosts", nEnclosing, everyIter, hostArgOK, appended)
		}
		r.Check(okLoop, "C16-R3", a.download.Name()+":one-call-per-host-in-order", c.InstrPos(pc), detail, "hosts are not downloaded exactly once each, in order: "+detail)
	}
	for _, f := range []*ssa.Function{a.perHost, a.info} {
		dos := callsIn(f, func(k string, _ *ssa.Call) bool { return k == "(*net/http.Client).Do" })
		inLoop := false
		loops := iterLoops(f)
		for _, d := range dos {
			if innermostLoopOf(loops, d.Block()) != nil {
				inLoop = true
			}
		}
		r.Check(len(dos) == 1 && !inLoop, "C16-R3", f.Name()+":single-request", c.Pos(f.Pos()), "exactly one client.Do, not inside a loop", fmt.Sprintf("%d client.Do calls, inside a loop: %v (retry / duplicate request)", len(dos), inLoop))
	}
	if hostsFn != nil {
		// order-preserving extraction, element #0 of SplitHostPort (port stripped)
		okH, detail := hostExtractionShape(hostsFn)
		r.Check(okH, "C16-R3", hostsFn.Name()+":order-and-port-stripping", c.Pos(hostsFn.Pos()), detail, detail)
	} else {
		r.Undecided("C16-R3", "GetHostsFromConnectionString", "-", "host extraction function not found")
	}

	// ---- R4: endpoint
	r.Floor("C16-R4", 3, "two request constructors + BaseURL store")
	noRedirectRule(c, r, "C16-R4")
	for _, f := range c.SortedFuncs() {
		for _, nr := range callsIn(f, func(k string, _ *ssa.Call) bool {
			return k == "net/http.NewRequestWithContext" || k == "net/http.NewRequest" || k == "(*net/http.Client).Get" || k == "net/http.Get" || k == "net/http.Post" || k == "(*net/http.Client).Post"
		}) {
			k := calleeKey(&nr.Call)
			construct := fmt.Sprintf("%s:request-url(%s)", f.Name(), shortKey(k))
			if !strings.Contains(k, "NewRequest") {
				r.Bad("C16-R4", construct, c.InstrPos(nr), "request issued outside the BaseURL-prefixed constructors")
				continue
			}
			urlArg := nr.Call.Args[len(nr.Call.Args)-2]
			okB := false
			shapes := urlShapes(urlArg, nr.Block())
			if len(shapes) > 0 {
				okB = true
			}
			for _, shape := range shapes {
				okS := false
				if len(shape) >= 2 && shape[0].Val != nil && shape[1].Val == nil && strings.HasPrefix(shape[1].Lit, "/") {
					if ld, ok := peel(shape[0].Val).(*ssa.UnOp); ok {
						if fa, ok := ld.X.(*ssa.FieldAddr); ok {
							n, fv := fieldOf(fa)
							if n != nil && n.Obj().Name() == "AtlasClient" && fv.Name() == "BaseURL" {
								okS = true
							}
						}
					}
				}
				if !okS {
					okB = false
				}
			}
			r.Check(okB, "C16-R4", construct, c.InstrPos(nr), "URL = Sprintf(\"%s/...\", c.BaseURL, ...)", "request URL does not start with the client's BaseURL")
		}
	}
	nBase := 0
	for _, f := range c.SortedFuncs() {
		allInstrs(f, func(i ssa.Instruction) {
			st, ok := i.(*ssa.Store)
			if !ok {
				return
			}
			fa, ok := st.Addr.(*ssa.FieldAddr)
			if !ok {
				return
			}
			n, fv := fieldOf(fa)
			if n == nil || fv == nil || n.Obj().Name() != "AtlasClient" || fv.Name() != "BaseURL" {
				return
			}
			nBase++
			s, isC := constString(st.Val)
			u, err := url.Parse(s)
			okURL := isC && err == nil && u.Scheme == "https" && u.Host == "cloud.mongodb.com" && (u.Path == "" || u.Path == "/")
			r.Check(okURL, "C16-R4", fmt.Sprintf("%s:BaseURL-store", f.Name()), c.InstrPos(i), fmt.Sprintf("BaseURL = %q (https, Atlas API host)", s), fmt.Sprintf("BaseURL is set to %q: not the constant https://cloud.mongodb.com endpoint", s))
		})
	}
	if nBase == 0 {
		r.Bad("C16-R4", "BaseURL-store", "-", "BaseURL is never set")
	}

	// ---- R5: verbatim storage
	r.Floor("C16-R5", 1, "io.Copy into the temp file")
	for _, ct := range callsIn(a.perHost, func(k string, _ *ssa.Call) bool { return k == "os.CreateTemp" }) {
		fv := extractOf(ct, 0)
		if fv == nil {
			continue
		}
		var uses []string
		okAll := true
		copies := 0
		var visit func(v ssa.Value)
		visit = func(v ssa.Value) {
			for _, rr := range referrers(v) {
				switch x := rr.(type) {
				case *ssa.MakeInterface, *ssa.ChangeInterface:
					visit(x.(ssa.Value))
				case *ssa.BinOp, *ssa.If, *ssa.DebugRef:
				case *ssa.Store:
					// kept in a local variable (one that a deferred closure captures): its loads are
					// visited as aliases below
					if _, isAl := x.Addr.(*ssa.Alloc); !isAl || x.Val != v {
						okAll = false
						uses = append(uses, "stored somewhere")
					}
				case ssa.CallInstruction:
					k := calleeKey(x.Common())
					switch {
					case k == "io.Copy":
						copies++
						// src must be resp.Body of client.Do
						srcOK := false
						if ld, ok := peel(x.Common().Args[1]).(*ssa.UnOp); ok {
							if fa, ok := ld.X.(*ssa.FieldAddr); ok {
								_, f2 := fieldOf(fa)
								if f2 != nil && f2.Name() == "Body" {
									srcOK = true
								}
							}
						}
						if !srcOK || !(derivesFrom(x.Common().Args[0], fv, 0) || canon(peel(x.Common().Args[0])) == fv) {
							okAll = false
							uses = append(uses, "io.Copy with an unexpected source/destination")
						}
					case k == "(*os.File).Close", k == "(*os.File).Name", strings.HasSuffix(k, ".Close"):
					default:
						okAll = false
						uses = append(uses, k)
					}
				default:
					okAll = false
					uses = append(uses, fmt.Sprintf("%T", rr))
				}
			}
		}
		for _, al := range aliasesOf(fv) {
			visit(al)
		}
		r.Check(okAll && copies == 1, "C16-R5", a.perHost.Name()+":temp-file-writers", c.InstrPos(ct), "temp file is written only by one io.Copy(tmpFile, resp.Body)", fmt.Sprintf("temp file content is not the verbatim response body: copies=%d other uses=%v", copies, uses))
	}

	atlasRequestHeadersRule(c, r, []*ssa.Function{a.perHost, a.info}, "C16-R5")

	// ---- R6: pairing of file i with <outputFile>.<i>
	r.Floor("C16-R6", 1, "per-file loop")
	c16Pairing(c, r, an, a)
	encryptHonouredRule(c, r, c.anchors(), "C16-R6")
	if an := c.anchors(); an.StreamFn != nil {
		gzipReaderRule(c, r, an.StreamFn, "C16-R6")
	}
}

func isUnixNow(v ssa.Value) bool {
	if cv, ok := v.(*ssa.Convert); ok {
		v = cv.X
	}
	uc, ok := v.(*ssa.Call)
	if !ok || calleeKey(&uc.Call) != "(time.Time).Unix" {
		return false
	}
	nc, ok := uc.Call.Args[0].(*ssa.Call)
	return ok && calleeKey(&nc.Call) == "time.Now"
}

func hostExtractionShape(fn *ssa.Function) (bool, string) {
	loops := iterLoops(fn)
	var l *IterLoop
	for _, x := range loops {
		if x.Kind == "slice" {
			l = x
		}
	}
	if l == nil || len(loops) != 1 {
		return false, "host extraction is not a single range loop"
	}
	// no path hands the parsed list back as it is (the SRV form resolves to target:port entries)
	rawReturn := ""
	allInstrs(fn, func(i ssa.Instruction) {
		ret, ok := i.(*ssa.Return)
		if !ok || len(ret.Results) == 0 {
			return
		}
		for _, vs := range sourcesAt(ret.Results[0], ret.Block()) {
			if ld, ok := peel(vs.Val).(*ssa.UnOp); ok {
				if fa, ok := ld.X.(*ssa.FieldAddr); ok {
					if _, fv := fieldOf(fa); fv != nil && fv.Name() == "Hosts" {
						rawReturn = "the parsed host list is returned as it is on one path (host:port entries of an SRV connection string keep their ports)"
					}
				}
			}
		}
	})
	if rawReturn != "" {
		return false, rawReturn
	}
	// collection: cs.Hosts
	collOK := false
	if ld, ok := l.Coll.(*ssa.UnOp); ok {
		if fa, ok := ld.X.(*ssa.FieldAddr); ok {
			_, fv := fieldOf(fa)
			collOK = fv != nil && fv.Name() == "Hosts"
		}
	}
	// accumulation sites: append onto the accumulator, or out[i] = v with out = make([]string, len(coll))
	type site struct {
		val   ssa.Value
		block *ssa.BasicBlock
	}
	var sites []site
	region := l.Loop.Region()
	allInstrs(fn, func(i ssa.Instruction) {
		if ac, ok := i.(*ssa.Call); ok && calleeKey(&ac.Call) == "builtin append" && region[ac.Block()] && isAccumulator(ac.Call.Args[0], l.Loop.Header, region) {
			vs := varargValues(ac.Call.Args[1])
			if len(vs) == 1 {
				sites = append(sites, site{vs[0], ac.Block()})
			} else {
				sites = append(sites, site{nil, ac.Block()})
			}
		}
	})
	if len(sites) == 0 {
		for b := range region {
			for _, in := range b.Instrs {
				st, ok := in.(*ssa.Store)
				if !ok {
					continue
				}
				ia, ok := st.Addr.(*ssa.IndexAddr)
				if !ok || ia.Index != l.Idx {
					continue
				}
				if _, n, fresh := freshSlice(ia.X); fresh && n != nil {
					if lc, ok := n.(*ssa.Call); ok && calleeKey(&lc.Call) == "builtin len" && sameExpr(lc.Call.Args[0], l.Coll) {
						sites = append(sites, site{st.Val, st.Block()})
					}
				}
			}
		}
	}
	if len(sites) == 0 {
		return false, "hosts are not accumulated in loop order (append onto the accumulator, or a store at the loop index into make([]string, len(hosts)))"
	}
	// value: phi/Extract#0 of net.SplitHostPort(elem) or elem itself
	okVal := true
	var check func(v ssa.Value, depth int, from *ssa.BasicBlock)
	check = func(v ssa.Value, depth int, from *ssa.BasicBlock) {
		if depth > 4 || v == nil {
			okVal = false
			return
		}
		switch x := v.(type) {
		case *ssa.Phi:
			for i, e := range x.Edges {
				if cs, isC := constString(e); isC && cs == "" {
					// the zero value on a path that carries a non-nil error (the caller of the loop returns it)
					errEdge := false
					for _, in := range x.Block().Instrs {
						if ep, ok := in.(*ssa.Phi); ok && isErrorType(ep.Type()) && !isNilConst(ep.Edges[i]) {
							errEdge = true
						}
					}
					if errEdge {
						continue
					}
				}
				check(e, depth+1, x.Block().Preds[i])
			}
		case *ssa.Extract:
			sc, ok := x.Tuple.(*ssa.Call)
			if !ok || calleeKey(&sc.Call) != "net.SplitHostPort" || x.Index != 0 {
				okVal = false
			}
		case *ssa.UnOp:
			// the raw element is acceptable only where SplitHostPort failed (no port to strip)
			ia, ok := x.X.(*ssa.IndexAddr)
			if !ok || ia.X != l.Coll || ia.Index != l.Idx || from == nil {
				okVal = false
				return
			}
			failed := false
			for _, f := range allFacts(from) {
				if ev, neq, ok := nilCompare(f.Cond); ok && neq == f.Pol {
					if ex, ok := ev.(*ssa.Extract); ok {
						if sc, ok := ex.Tuple.(*ssa.Call); ok && calleeKey(&sc.Call) == "net.SplitHostPort" {
							failed = true
						}
					}
				}
			}
			if !failed {
				okVal = false
			}
		default:
			okVal = false
		}
	}
	siteBlocks := map[*ssa.BasicBlock]int{}
	for _, st := range sites {
		check(st.val, 0, st.block)
		siteBlocks[st.block]++
	}
	// every path through the loop body to a latch passes exactly one accumulation site
	latch := map[*ssa.BasicBlock]bool{}
	for _, lt := range l.Loop.Latch {
		latch[lt] = true
	}
	type mm struct{ min, max int }
	memo := map[*ssa.BasicBlock]*mm{}
	onStack := map[*ssa.BasicBlock]bool{}
	var walk func(b *ssa.BasicBlock) *mm
	walk = func(b *ssa.BasicBlock) *mm {
		if m, ok := memo[b]; ok {
			return m
		}
		if onStack[b] {
			return &mm{0, 99} // inner cycle: not a simple body
		}
		onStack[b] = true
		defer delete(onStack, b)
		res := &mm{1 << 20, -1}
		if latch[b] {
			res = &mm{0, 0}
		}
		for _, sc := range b.Succs {
			if sc == l.Loop.Header || !region[sc] {
				if sc == l.Loop.Header && !latch[b] {
					res = &mm{0, 0}
				}
				continue
			}
			m := walk(sc)
			if m.max < 0 {
				continue // leads only out of the loop (error return)
			}
			if m.min < res.min {
				res.min = m.min
			}
			if m.max > res.max {
				res.max = m.max
			}
		}
		if res.max >= 0 {
			res.min += siteBlocks[b]
			res.max += siteBlocks[b]
		}
		memo[b] = res
		return res
	}
	everyIterOrError := false
	for _, sc := range l.Loop.Header.Succs {
		if region[sc] && sc != l.Loop.Header {
			m := walk(sc)
			everyIterOrError = m.min == 1 && m.max == 1
		}
	}
	// "in order": the list that was accumulated is the list that is returned - nothing sorts,
	// compacts, reverses or otherwise rearranges it afterwards (file i must be host i's log)
	rearranged := ""
	allInstrs(fn, func(i ssa.Instruction) {
		switch x := i.(type) {
		case *ssa.Call:
			k := calleeKey(&x.Call)
			if strings.HasPrefix(k, "builtin ") || k == "net.SplitHostPort" {
				return
			}
			for _, a := range x.Call.Args {
				if isStringSliceT(a.Type()) {
					rearranged = "the host list is handed to " + shortKey(k) + " after it was extracted: the order of the connection string is not guaranteed to survive (output file i would hold another member's log)"
				}
			}
		case *ssa.Return:
			if len(x.Results) == 0 || !isStringSliceT(x.Results[0].Type()) {
				return
			}
			for _, vs := range sourcesAt(x.Results[0], x.Block()) {
				v := peel(vs.Val)
				if call, isCall := v.(*ssa.Call); isCall && calleeKey(&call.Call) != "builtin append" {
					rearranged = "the list returned is the result of " + shortKey(calleeKey(&call.Call)) + ", not the list accumulated in connection-string order"
				}
				if _, isSlice := v.(*ssa.Slice); isSlice {
					if _, _, fresh := freshSlice(v); !fresh {
						rearranged = "a re-sliced part of the accumulated list is returned"
					}
				}
			}
		}
	})
	if rearranged != "" {
		return false, rearranged
	}
	if collOK && okVal && everyIterOrError {
		return true, fmt.Sprintf("single range over cs.Hosts; every completed iteration stores exactly one value (host part of SplitHostPort | element where there is no port), %d site(s)", len(sites))
	}
	return false, fmt.Sprintf("host extraction shape not recognised: rangesOverHosts=%v valueIsHostPart=%v oneStorePerIteration=%v", collOK, okVal, everyIterOrError)
}

func c16Pairing(c *Ctx, r *Report, an *Anchors, a *atlasAnchors) {
	cl := an.RedactClosure
	dlKey := fnFullName(a.download)
	for _, dl := range callsIn(cl, func(k string, _ *ssa.Call) bool { return k == dlKey }) {
		files := extractOf(dl, 0)
		var loop *IterLoop
		for _, l := range iterLoops(cl) {
			if l.Kind == "slice" && files != nil && derivesFrom(l.Coll, files, 0) {
				loop = l
			}
		}
		construct := cl.Name() + ":per-file-loop"
		if loop == nil {
			r.Bad("C16-R6", construct, c.InstrPos(dl), "no range loop over the downloaded files")
			continue
		}
		procKey := c.pkgFn("ProcessMongoLogFile")
		var procs []*ssa.Call
		for b := range loop.Loop.Region() {
			for _, in := range b.Instrs {
				if call, ok := in.(*ssa.Call); ok && calleeKey(&call.Call) == procKey {
					procs = append(procs, call)
				}
			}
		}
		if len(procs) != 1 {
			r.Bad("C16-R6", construct, c.Pos(cl.Pos()), fmt.Sprintf("%d processing calls in the per-file loop (exactly one expected)", len(procs)))
			continue
		}
		pc := procs[0]
		everyIter := loop.Loop.everyIteration(pc.Block())
		// input path = files[i]
		inOK := false
		for _, arg := range pc.Call.Args {
			if ld, ok := arg.(*ssa.UnOp); ok {
				if ia, ok := ld.X.(*ssa.IndexAddr); ok && ia.X == loop.Coll && ia.Index == loop.Idx {
					inOK = true
				}
			}
		}
		// writer = os.Create(Sprintf("%s.%d", outputFile, i)) in the same iteration
		outOK, fmtOK := false, false
		detail := ""
		for _, arg := range pc.Call.Args {
			mi, ok := arg.(*ssa.MakeInterface)
			if !ok {
				continue
			}
			ex, ok := mi.X.(*ssa.Extract)
			if !ok {
				continue
			}
			cc, ok := ex.Tuple.(*ssa.Call)
			if !ok || calleeKey(&cc.Call) != "os.Create" || !loop.Loop.Region()[cc.Block()] {
				continue
			}
			outOK = true
			if sp, ok := cc.Call.Args[0].(*ssa.Call); ok && calleeKey(&sp.Call) == "fmt.Sprintf" {
				format, _ := constString(sp.Call.Args[0])
				ops := varargValues(sp.Call.Args[1])
				if format == "%s.%d" && len(ops) == 2 {
					name, isFlag := an.flagOfValue(cl, ops[0])
					idxOK := peel(ops[1]) == loop.Idx
					fmtOK = isFlag && name == "outputFile" && idxOK
					detail = fmt.Sprintf("format=%q operand0=flag(%s) operand1IsLoopIndex=%v", format, name, idxOK)
				} else {
					detail = fmt.Sprintf("format=%q", format)
				}
			} else if b1, ok := peel(cc.Call.Args[0]).(*ssa.BinOp); ok && b1.Op == token.ADD {
				// outputFile + "." + strconv.Itoa(i): the same text as Sprintf("%s.%d", outputFile, i)
				if b0, ok := peel(b1.X).(*ssa.BinOp); ok && b0.Op == token.ADD {
					name, isFlag := an.flagOfValue(cl, b0.X)
					dot, isDot := constString(b0.Y)
					idxOK := false
					if ic, ok := peel(b1.Y).(*ssa.Call); ok {
						switch calleeKey(&ic.Call) {
						case "strconv.Itoa":
							idxOK = peel(ic.Call.Args[0]) == loop.Idx
						case "strconv.FormatInt":
							if cv, ok := peel(ic.Call.Args[0]).(*ssa.Convert); ok {
								base, isC := constInt(ic.Call.Args[1])
								idxOK = peel(cv.X) == loop.Idx && isC && base == 10
							}
						}
					}
					fmtOK = isFlag && name == "outputFile" && isDot && dot == "." && idxOK
					detail = fmt.Sprintf("concatenation: operand0=flag(%s) separator=%q lastIsDecimalLoopIndex=%v", name, dot, idxOK)
				}
			}
		}
		r.Check(everyIter && inOK && outOK && fmtOK, "C16-R6", construct, c.InstrPos(pc),
			"file i is processed into os.Create(Sprintf(\"%s.%d\", outputFile, i)) in the same iteration, once per file",
			fmt.Sprintf("file/output pairing broken: everyIteration=%v inputIsFiles[i]=%v writerCreatedInIteration=%v %s", everyIter, inOK, outOK, detail))
	}
}

// noRedirectRule (C16-R4 / C20-R3): a client that carries the digest transport must not
// follow redirects - net/http follows a 3xx to any host, and the transport would then
// answer THAT host's challenge with a response derived from the private key, and the
// body it serves would be stored as the host's log. Every http.Client literal whose
// Transport is (or wraps) the credential-holding transport sets CheckRedirect to a
// function all of whose returns are non-nil errors.
func noRedirectRule(c *Ctx, r *Report, rule string) {
	n := 0
	for _, f := range c.SortedFuncs() {
		// http.Client literals: allocs of net/http.Client with a store to Transport
		clients := map[ssa.Value]map[string]ssa.Value{}
		allInstrs(f, func(i ssa.Instruction) {
			st, ok := i.(*ssa.Store)
			if !ok {
				return
			}
			fa, ok := st.Addr.(*ssa.FieldAddr)
			if !ok {
				return
			}
			nt, fv := fieldOf(fa)
			if nt == nil || fv == nil || nt.Obj().Pkg() == nil || nt.Obj().Pkg().Path() != "net/http" || nt.Obj().Name() != "Client" {
				return
			}
			if clients[fa.X] == nil {
				clients[fa.X] = map[string]ssa.Value{}
			}
			clients[fa.X][fv.Name()] = st.Val
		})
		var cls []ssa.Value
		for cl := range clients {
			cls = append(cls, cl)
		}
		sort.Slice(cls, func(i, j int) bool { return cls[i].Pos() < cls[j].Pos() })
		for _, cl := range cls {
			fields := clients[cl]
			tr, hasTr := fields["Transport"]
			if !hasTr {
				continue
			}
			// credentialed: the transport is a *digest.Transport (possibly boxed)
			if !strings.Contains(peel(tr).Type().String(), digestPkg+".Transport") {
				continue
			}
			n++
			construct := fmt.Sprintf("%s:credentialed-client#%d:no-redirect", f.Name(), n)
			cr, hasCR := fields["CheckRedirect"]
			okCR := false
			detail := "CheckRedirect is not set: redirects are followed to any host"
			if hasCR {
				var fn *ssa.Function
				switch x := peel(cr).(type) {
				case *ssa.Function:
					fn = x
				case *ssa.MakeClosure:
					fn, _ = x.Fn.(*ssa.Function)
				case *ssa.ChangeType:
					fn, _ = x.X.(*ssa.Function)
				}
				if fn != nil && fn.Blocks != nil {
					okCR = true
					allInstrs(fn, func(i ssa.Instruction) {
						if ret, ok := i.(*ssa.Return); ok {
							for _, res := range ret.Results {
								if isErrorType(res.Type()) && isNilConst(resolveLocal(res)) {
									okCR = false
									detail = "CheckRedirect can return nil: some redirects are followed"
								}
							}
						}
					})
				} else {
					detail = "CheckRedirect is not a function of the package that can be inspected"
				}
			}
			pos := "-"
			if in, ok := cl.(ssa.Instruction); ok {
				pos = c.InstrPos(in)
			}
			r.Check(okCR, rule, construct, pos, "the client that carries the credentials never follows a redirect: requests, and challenge answers, go to the constructed Atlas URL only", detail)
		}
	}
	if n < 1 {
		r.Bad(rule, "credentialed-clients", "-", fmt.Sprintf("%d http.Client literal(s) with the digest transport found (4 today): anchor lost", n))
	}
}
