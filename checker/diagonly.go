package main

// Diagnostic-only use of a run-dependent source.
//
// "No time / randomness / environment source on the line path" (C06-R1d and the whole-program
// query behind it) is stronger than what C06 / C02 / C19 state: the output must not *depend* on
// such a source. `start := time.Now()` ... `fmt.Fprintf(os.Stderr, "%d lines in %s\n", n,
// time.Since(start))` consults the clock and cannot change one output byte. A call of a source
// is therefore accepted when everything derived from its result - through arithmetic,
// conversions, formatting, local variables, fields of local structs, package-level variables,
// parameters of package functions, closures - ends in a diagnostic on stderr (or is dropped),
// and is reported when a derived value reaches a branch condition, a return out of the line
// path, a map, a channel, or any library call that is not formatting / time arithmetic / a
// stderr print. Flow-insensitive and field-insensitive per local: if in doubt, it is reported.

import (
	"fmt"
	"go/token"
	"strings"

	"golang.org/x/tools/go/ssa"
)

var diagThroughPrefixes = []string{
	"time.Since", "time.Until", "time.Now", "(time.Time).", "(*time.Time).", "(time.Duration).", "time.Duration.",
	"fmt.Sprint", "fmt.Sprintf", "fmt.Sprintln", "strconv.", "math.", "strings.", "unicode/utf8.",
}

func isStderrWriter(v ssa.Value) bool {
	v = peel(v)
	if mi, ok := v.(*ssa.MakeInterface); ok {
		v = peel(mi.X)
	}
	return isStderr(v)
}

// diagnosticSink: the call prints to stderr (or logs) and yields nothing the program reads.
func diagnosticSink(cc *ssa.CallCommon, k string, callersOf func(*ssa.Function) []ssa.CallInstruction) bool {
	// the writer is stderr itself, or a parameter that every caller binds to stderr
	toStderr := func(v ssa.Value) bool {
		if isStderrWriter(v) || stderrSeam(v) {
			return true
		}
		p, ok := peel(v).(*ssa.Parameter)
		if !ok || callersOf == nil {
			return false
		}
		fn := p.Parent()
		idx := -1
		for i, q := range fn.Params {
			if q == p {
				idx = i
			}
		}
		cs := callersOf(fn)
		if idx < 0 || len(cs) == 0 {
			return false
		}
		for _, ci := range cs {
			args := ci.Common().Args
			if idx >= len(args) || !isStderrWriter(args[idx]) {
				return false
			}
		}
		return true
	}
	switch k {
	case "fmt.Fprint", "fmt.Fprintf", "fmt.Fprintln":
		return len(cc.Args) > 0 && toStderr(cc.Args[0])
	case "(*os.File).WriteString", "(*os.File).Write":
		return len(cc.Args) > 0 && toStderr(cc.Args[0])
	case "log.Print", "log.Printf", "log.Println", "builtin println", "builtin print":
		return true
	}
	return false
}

// diagnosticOnly decides whether everything derived from seed ends in diagnostics. universe is
// the set of functions searched for callers, loads of package-level variables and closures.
func diagnosticOnly(c *Ctx, seed ssa.Value, universe []*ssa.Function) (bool, string) {
	tainted := map[ssa.Value]bool{}
	globals := map[*ssa.Global]bool{}
	var work []ssa.Value
	add := func(v ssa.Value) {
		if v != nil && !tainted[v] {
			tainted[v] = true
			work = append(work, v)
		}
	}
	why := ""
	bad := func(format string, a ...any) {
		if why == "" {
			why = fmt.Sprintf(format, a...)
		}
	}
	inUniverse := map[*ssa.Function]bool{}
	var all []*ssa.Function
	var addFn func(f *ssa.Function)
	addFn = func(f *ssa.Function) {
		if f == nil || inUniverse[f] {
			return
		}
		inUniverse[f] = true
		all = append(all, f)
		for _, a := range f.AnonFuncs {
			addFn(a)
		}
	}
	for _, f := range universe {
		addFn(f)
	}
	callersOf := func(fn *ssa.Function) []ssa.CallInstruction {
		var out []ssa.CallInstruction
		for _, f := range all {
			allInstrs(f, func(i ssa.Instruction) {
				if ci, ok := i.(ssa.CallInstruction); ok {
					if ci.Common().StaticCallee() == fn {
						out = append(out, ci)
					}
				}
			})
		}
		return out
	}
	taintGlobal := func(g *ssa.Global) {
		if globals[g] {
			return
		}
		globals[g] = true
		for _, f := range all {
			allInstrs(f, func(i ssa.Instruction) {
				for _, op := range i.Operands(nil) {
					if *op == ssa.Value(g) {
						if v, ok := i.(ssa.Value); ok {
							// a load of the variable or the address of one of its parts
							if _, isStore := i.(*ssa.Store); !isStore {
								add(v)
							}
						}
					}
				}
			})
		}
	}
	// root of an address expression
	var rootOf func(a ssa.Value, depth int) ssa.Value
	rootOf = func(a ssa.Value, depth int) ssa.Value {
		if depth > 8 {
			return a
		}
		switch x := a.(type) {
		case *ssa.FieldAddr:
			return rootOf(x.X, depth+1)
		case *ssa.IndexAddr:
			return rootOf(x.X, depth+1)
		}
		return a
	}
	add(seed)
	steps := 0
	for len(work) > 0 && why == "" {
		v := work[len(work)-1]
		work = work[:len(work)-1]
		steps++
		if steps > 20000 {
			bad("the flow of the value is too large to follow")
			break
		}
		for _, use := range referrers(v) {
			switch x := use.(type) {
			case *ssa.DebugRef:
			case *ssa.Phi, *ssa.MakeInterface, *ssa.ChangeInterface, *ssa.ChangeType, *ssa.Convert, *ssa.Slice, *ssa.TypeAssert,
				*ssa.Extract, *ssa.Index, *ssa.Field, *ssa.BinOp, *ssa.FieldAddr, *ssa.IndexAddr, *ssa.Lookup, *ssa.MakeSlice:
				add(use.(ssa.Value))
			case *ssa.UnOp:
				if x.Op == token.ARROW {
					bad("received from at %s", c.InstrPos(use))
				} else {
					add(x)
				}
			case *ssa.Store:
				if x.Val != v {
					continue // something else is stored into a location that holds the value
				}
				switch rt := rootOf(x.Addr, 0).(type) {
				case *ssa.Alloc:
					add(rt)
				case *ssa.Global:
					taintGlobal(rt)
				case *ssa.FreeVar:
					add(rt)
				default:
					bad("stored through a pointer the analysis does not own at %s", c.InstrPos(use))
				}
			case *ssa.MakeClosure:
				fn, _ := x.Fn.(*ssa.Function)
				for i, b := range x.Bindings {
					if b == v && fn != nil && i < len(fn.FreeVars) {
						add(fn.FreeVars[i])
					}
				}
			case *ssa.If:
				// a branch that only decides WHETHER a diagnostic is printed: everything that can
				// run after it, up to the end of the function, is printing to stderr, formatting
				// and plain returns - then both ways round leave the program in the same state
				if w := onlyDiagnosticsAfter(c, x, callersOf); w != "" {
					bad("decides a branch at %s after which %s", c.InstrPos(use), w)
				}
			case *ssa.Return:
				fn := x.Parent()
				cs := callersOf(fn)
				if len(cs) == 0 {
					bad("returned from %s at %s", fn.Name(), c.InstrPos(use))
				}
				for _, ci := range cs {
					if val := ci.Value(); val != nil {
						add(val)
					}
				}
			case ssa.CallInstruction:
				cc := x.Common()
				if callee := cc.StaticCallee(); callee != nil && inUniverse[callee] {
					args := cc.Args
					for i, a := range args {
						if a == v && i < len(callee.Params) {
							add(callee.Params[i])
						}
					}
					continue
				}
				if cc.Value == v && !cc.IsInvoke() {
					// calling a tainted function value: nothing flows by that alone
					continue
				}
				k := calleeKey(cc)
				if diagnosticSink(cc, k, callersOf) {
					continue
				}
				through := false
				for _, p := range diagThroughPrefixes {
					if strings.HasPrefix(k, p) {
						through = true
					}
				}
				if through {
					if val := x.Value(); val != nil {
						add(val)
					}
					continue
				}
				bad("handed to %s at %s", shortKey(k), c.InstrPos(use))
			case *ssa.MapUpdate, *ssa.Send, *ssa.Panic, *ssa.Range, *ssa.Select:
				bad("used by %T at %s", use, c.InstrPos(use))
			default:
				bad("used by %T at %s", use, c.InstrPos(use))
			}
			if why != "" {
				break
			}
		}
	}
	return why == "", why
}

// diagnosticOnlySourceCall: is this call of a run-dependent source one whose result only ever
// reaches diagnostics? Only value-returning pure sources qualify (clock, pid, hostname,
// environment reads ...): sleeping, timers, network and file access are effects in themselves.
func diagnosticOnlySourceCall(c *Ctx, i ssa.Instruction, universe []*ssa.Function) (bool, string) {
	call, ok := i.(*ssa.Call)
	if !ok {
		return false, "not a plain call"
	}
	k := calleeKey(&call.Call)
	switch {
	case k == "time.Now", k == "time.Since", k == "time.Until", k == "os.Getpid", k == "os.Getppid", k == "os.Hostname",
		k == "runtime.NumGoroutine", k == "runtime.ReadMemStats", k == "os.Getenv", k == "os.LookupEnv":
	default:
		return false, "the call is an effect in itself"
	}
	if k == "runtime.ReadMemStats" {
		if len(call.Call.Args) != 1 {
			return false, "odd call"
		}
		if al, isAlloc := call.Call.Args[0].(*ssa.Alloc); isAlloc {
			return diagnosticOnly(c, al, universe)
		}
		return false, "statistics written through a pointer the analysis does not own"
	}
	return diagnosticOnly(c, call, universe)
}

// onlyDiagnosticsAfter: "" when every instruction reachable from the branch within its function
// is harmless (loads, address computations, conversions, stores into locals, formatting,
// diagnostics on stderr, result-less returns); otherwise what else can run.
func onlyDiagnosticsAfter(c *Ctx, ifi *ssa.If, callersOf func(*ssa.Function) []ssa.CallInstruction) string {
	seen := map[*ssa.BasicBlock]bool{}
	var work []*ssa.BasicBlock
	for _, s := range ifi.Block().Succs {
		work = append(work, s)
	}
	// what the branch decides ends where its two ways meet again: the nearest block that both
	// successors reach (an `if debug { print }` inside a loop decides the print, not the loop)
	{
		reach := func(from *ssa.BasicBlock) (map[*ssa.BasicBlock]int, []*ssa.BasicBlock) {
			dist := map[*ssa.BasicBlock]int{from: 0}
			order := []*ssa.BasicBlock{from}
			for i := 0; i < len(order); i++ {
				for _, s := range order[i].Succs {
					if _, has := dist[s]; !has && s != ifi.Block() {
						dist[s] = dist[order[i]] + 1
						order = append(order, s)
					}
				}
			}
			return dist, order
		}
		succs := ifi.Block().Succs
		if len(succs) == 2 && succs[0] != succs[1] {
			d0, o0 := reach(succs[0])
			d1, _ := reach(succs[1])
			var join *ssa.BasicBlock
			best := 1 << 30
			for _, b := range o0 {
				if x, has := d1[b]; has && d0[b]+x < best {
					best, join = d0[b]+x, b
				}
			}
			if join != nil {
				seen[join] = true // stop there
			}
		}
	}
	localRoot := func(a ssa.Value) bool {
		for d := 0; d < 8; d++ {
			switch x := a.(type) {
			case *ssa.Alloc:
				return true
			case *ssa.FieldAddr:
				a = x.X
			case *ssa.IndexAddr:
				a = x.X
			default:
				return false
			}
		}
		return false
	}
	for len(work) > 0 {
		b := work[len(work)-1]
		work = work[:len(work)-1]
		if seen[b] {
			continue
		}
		seen[b] = true
		if len(seen) > 64 {
			return "too much code follows to read"
		}
		for _, in := range b.Instrs {
			switch x := in.(type) {
			case *ssa.DebugRef, *ssa.Jump, *ssa.If, *ssa.Phi, *ssa.UnOp, *ssa.BinOp, *ssa.FieldAddr, *ssa.IndexAddr, *ssa.Field, *ssa.Index,
				*ssa.MakeInterface, *ssa.ChangeInterface, *ssa.ChangeType, *ssa.Convert, *ssa.Slice, *ssa.Alloc, *ssa.Extract, *ssa.TypeAssert, *ssa.RunDefers:
			case *ssa.Return:
				if len(x.Results) > 0 {
					return "a value is returned (" + c.InstrPos(in) + ")"
				}
			case *ssa.Store:
				if !localRoot(x.Addr) {
					return "something other than a local is written (" + c.InstrPos(in) + ")"
				}
			case ssa.CallInstruction:
				cc := x.Common()
				k := calleeKey(cc)
				if diagnosticSink(cc, k, callersOf) {
					continue
				}
				through := false
				for _, p := range diagThroughPrefixes {
					if strings.HasPrefix(k, p) {
						through = true
					}
				}
				if !through {
					return shortKey(k) + " is called (" + c.InstrPos(in) + ")"
				}
			default:
				return fmt.Sprintf("%T runs (%s)", in, c.InstrPos(in))
			}
		}
		work = append(work, b.Succs...)
	}
	return ""
}

// stderrSeam: v is a load of a package-level variable (`var statsSink io.Writer = os.Stderr`, a
// seam for tests) whose only store anywhere in the package is its initialisation with os.Stderr.
func stderrSeam(v ssa.Value) bool {
	v = peel(v)
	if mi, ok := v.(*ssa.MakeInterface); ok {
		v = peel(mi.X)
	}
	ld, ok := v.(*ssa.UnOp)
	if !ok || ld.Op != token.MUL {
		return false
	}
	g, ok := ld.X.(*ssa.Global)
	if !ok || g.Pkg == nil {
		return false
	}
	stores, okInit := 0, false
	for _, m := range g.Pkg.Members {
		fn, ok := m.(*ssa.Function)
		if !ok {
			continue
		}
		var visit func(f *ssa.Function)
		visit = func(f *ssa.Function) {
			allInstrs(f, func(i ssa.Instruction) {
				switch x := i.(type) {
				case *ssa.Store:
					if x.Addr == ssa.Value(g) {
						stores++
						if f.Name() == "init" && isStderrWriter(x.Val) {
							okInit = true
						}
					}
				default:
					// the address handed to something: could be written there
					if _, isLoad := i.(*ssa.UnOp); isLoad {
						return
					}
					for _, op := range i.Operands(nil) {
						if *op == ssa.Value(g) {
							stores += 2
						}
					}
				}
			})
			for _, a := range f.AnonFuncs {
				visit(a)
			}
		}
		visit(fn)
	}
	return stores == 1 && okInit
}
