package main

import (
	"fmt"
	"go/token"
	"go/types"
	"sort"
	"strings"

	"golang.org/x/tools/go/ssa"
)

// A7 - abstract interpretation of the redact command over the presence domain.
// Strings are {empty, non-empty, unknown}, integers {known n, non-zero, unknown},
// booleans {false, true, unknown}. The 13 presence atoms fix the initial abstract
// state; the closure's SSA is interpreted path-wise up to the first processing call
// or os.Exit. No code of the repository runs and no concrete value is constructed
// beyond the abstract representatives.

type aKind int

const (
	aUnknown aKind = iota
	aStr           // S: 0 empty, 1 non-empty
	aInt           // known value N, or NonZero
	aBool
	aSliceLen // slice with abstract length (as aInt)
)

type aVal struct {
	K       aKind
	Known   bool  // for aInt: N is exact
	N       int64 // aInt exact value; aStr: 0/1; aBool: 0/1
	NonZero bool  // aInt: non-zero, value unknown
	NonNeg  bool  // aInt: a length (>= 0)
}

var aTop = aVal{K: aUnknown}

func aStrV(nonEmpty bool) aVal { return aVal{K: aStr, Known: true, N: b2i(nonEmpty)} }
func aBoolV(b bool) aVal       { return aVal{K: aBool, Known: true, N: b2i(b)} }
func aIntV(n int64) aVal       { return aVal{K: aInt, Known: true, N: n} }
func aIntNZ() aVal             { return aVal{K: aInt, NonZero: true} }
func b2i(b bool) int64 {
	if b {
		return 1
	}
	return 0
}

type presenceAtoms struct {
	File, Stdin, Env bool
	Flags            map[string]bool // flag name -> present
}

var presenceFlagAtoms = []string{"outputFile", "encrypt", "redactFieldsRegexp", "redactFieldNames", "atlasProjectId", "atlasClusterName", "atlasPublicKey", "atlasPrivateKey", "atlasLogStartDate", "atlasLogEndDate"}

type pathResult struct {
	Verdict       string // reject | accept | silent-return | undecided
	Mode          string // accept: file | stdin | atlas
	ExitCode      int64
	Effects       []string // effectful calls before the end
	StderrWritten bool
	RuntimeDep    bool // a branch on an unknown value was taken
	UnknownAt     string
	Where         string
}

type presenceInterp struct {
	c        *Ctx
	an       *Anchors
	fn       *ssa.Function
	procMode map[string]string
	effectFn map[string]string // callee key -> effect label
	stdinVal ssa.Value
	problems []string
	defaults map[string]aVal
}

func newPresenceInterp(c *Ctx, an *Anchors) *presenceInterp {
	pi := &presenceInterp{c: c, an: an, fn: an.RedactClosure, procMode: map[string]string{}, effectFn: map[string]string{}, defaults: map[string]aVal{}}
	pi.procMode[c.pkgFn("ProcessMongoLogFile")] = "file"
	pi.procMode[c.pkgFn("ProcessMongoLogFileFromReader")] = "stdin"
	pi.procMode[c.pkgMethod("AtlasClient", "DownloadClusterLogs")] = "atlas"
	// effect table: library calls that create/modify files or talk to the network, and
	// package functions that reach one
	libEffects := map[string]string{}
	for k := range fileCreators {
		libEffects[k] = "file:" + k
	}
	libEffects["(*net/http.Client).Do"] = "network"
	libEffects["net/http.Get"] = "network"
	libEffects["net/http.Post"] = "network"
	libEffects["os.Remove"] = "file:os.Remove"
	for k, v := range libEffects {
		pi.effectFn[k] = v
	}
	for _, f := range c.SortedFuncs() {
		if f.Parent() != nil {
			continue
		}
		var labels []string
		for g := range c.pkgReach(f) {
			allInstrs(g, func(i ssa.Instruction) {
				if cc := callCommonOf(i); cc != nil {
					if l, ok := libEffects[calleeKey(cc)]; ok {
						labels = append(labels, l)
					}
				}
			})
		}
		if len(labels) > 0 {
			sort.Strings(labels)
			pi.effectFn[fnFullName(f)] = f.Name() + "{" + strings.Join(dedupe(labels), ",") + "}"
		}
	}
	// the random key generator counts as "generates a key" even though it only fills memory
	if g := c.Fn("GenerateKey"); g != nil {
		pi.effectFn[fnFullName(g)] = "GenerateKey"
	}
	// stdin atom: (stat.Mode() & os.ModeCharDevice) == 0 with stat from os.Stdin.Stat()
	allInstrs(pi.fn, func(i ssa.Instruction) {
		b, ok := i.(*ssa.BinOp)
		if !ok || b.Op != token.EQL {
			return
		}
		and, ok := b.X.(*ssa.BinOp)
		if !ok || and.Op != token.AND {
			return
		}
		if n, ok := constInt(b.Y); !ok || n != 0 {
			return
		}
		if mc, ok := and.X.(*ssa.Call); ok && strings.HasSuffix(calleeKey(&mc.Call), ".Mode") {
			pi.stdinVal = b
		}
	})
	if pi.stdinVal == nil {
		pi.problems = append(pi.problems, "piped-stdin detection ((stat.Mode() & os.ModeCharDevice) == 0) not found in the redact command")
	}
	// flag defaults from the binding calls in main
	allInstrs(an.Main, func(i ssa.Instruction) {
		call, ok := i.(*ssa.Call)
		if !ok || !strings.HasPrefix(calleeKey(&call.Call), "(*github.com/spf13/pflag.FlagSet).") || len(call.Call.Args) < 5 {
			return
		}
		name, ok := constString(call.Call.Args[2])
		if !ok {
			return
		}
		def := call.Call.Args[len(call.Call.Args)-2]
		if strings.HasSuffix(calleeKey(&call.Call), "Var") {
			def = call.Call.Args[len(call.Call.Args)-2]
		}
		if s, ok := constString(def); ok {
			pi.defaults[name] = aStrV(s != "")
		} else if n, ok := constInt(def); ok {
			pi.defaults[name] = aIntV(n)
		} else if b, ok := constBool(def); ok {
			pi.defaults[name] = aBoolV(b)
		} else if isNilConst(def) {
			pi.defaults[name] = aVal{K: aSliceLen, Known: true, N: 0}
		}
	})
	return pi
}

func (pi *presenceInterp) flagValue(name string, at presenceAtoms) aVal {
	kind := pi.an.FlagKind[name]
	present, isAtom := at.Flags[name]
	if !isAtom {
		if d, ok := pi.defaults[name]; ok {
			return d
		}
		return aTop
	}
	switch kind {
	case "string":
		return aStrV(present)
	case "int":
		if present {
			return aIntNZ()
		}
		return aIntV(0)
	case "bool":
		return aBoolV(present)
	case "stringArray", "stringSlice":
		if present {
			return aVal{K: aSliceLen, NonZero: true}
		}
		return aVal{K: aSliceLen, Known: true, N: 0}
	}
	return aTop
}

type pState struct {
	env     map[ssa.Value]aVal
	effects []string
	stderr  bool
	rtdep   bool
	rtwhere string
}

func (s *pState) clone() *pState {
	n := &pState{env: make(map[ssa.Value]aVal, len(s.env)+8), stderr: s.stderr, rtdep: s.rtdep, rtwhere: s.rtwhere}
	for k, v := range s.env {
		n.env[k] = v
	}
	n.effects = append([]string{}, s.effects...)
	return n
}

// run explores all paths for one assignment of the atoms.
func (pi *presenceInterp) run(at presenceAtoms) []pathResult {
	var out []pathResult
	budget := 4000
	seenState := map[string]bool{}
	var walk func(b, pred *ssa.BasicBlock, st *pState, visited map[*ssa.BasicBlock]int)
	walk = func(b, pred *ssa.BasicBlock, st *pState, visited map[*ssa.BasicBlock]int) {
		budget--
		if budget < 0 {
			out = append(out, pathResult{Verdict: "undecided", Where: "path budget exhausted"})
			return
		}
		if visited[b] > 0 {
			out = append(out, pathResult{Verdict: "undecided", Where: "loop before the first processing call at " + pi.c.Pos(b.Instrs[0].Pos())})
			return
		}
		visited[b]++
		defer func() { visited[b]-- }()
		// two arrivals at b with the same abstract state explore the same continuations: what can
		// be read from b on is what the blocks dominating b defined (SSA) and the phis of b as
		// delivered by this predecessor. (A switch on an environment variable that only decides
		// whether a diagnostic is printed multiplies the paths by its arms, not the outcomes.)
		{
			var kb strings.Builder
			fmt.Fprintf(&kb, "%d|%v|%v|%s|", b.Index, st.stderr, st.rtdep, strings.Join(st.effects, ","))
			for _, in := range b.Instrs {
				ph, ok := in.(*ssa.Phi)
				if !ok {
					break
				}
				for i, p := range b.Preds {
					if p == pred {
						fmt.Fprintf(&kb, "%v;", pi.eval(ph.Edges[i], st, at))
					}
				}
			}
			for d := b.Idom(); d != nil; d = d.Idom() {
				for _, in := range d.Instrs {
					if v, ok := in.(ssa.Value); ok {
						if av, has := st.env[v]; has {
							fmt.Fprintf(&kb, "%v;", av)
						} else {
							kb.WriteString("-;")
						}
					}
				}
			}
			key := kb.String()
			if seenState[key] {
				return
			}
			seenState[key] = true
		}
		for _, in := range b.Instrs {
			switch x := in.(type) {
			case *ssa.Phi:
				for i, p := range b.Preds {
					if p == pred {
						st.env[x] = pi.eval(x.Edges[i], st, at)
					}
				}
			case *ssa.If:
				cv := pi.eval(x.Cond, st, at)
				if cv.K == aBool && cv.Known {
					if cv.N == 1 {
						walk(b.Succs[0], b, st, visited)
					} else {
						walk(b.Succs[1], b, st, visited)
					}
				} else {
					s2 := st.clone()
					for _, s := range []*pState{st, s2} {
						if !s.rtdep {
							s.rtdep = true
							s.rtwhere = pi.c.InstrPos(in)
						}
					}
					walk(b.Succs[0], b, st, visited)
					walk(b.Succs[1], b, s2, visited)
				}
				return
			case *ssa.Jump:
				walk(b.Succs[0], b, st, visited)
				return
			case *ssa.Return:
				out = append(out, pathResult{Verdict: "silent-return", Effects: st.effects, StderrWritten: st.stderr, RuntimeDep: st.rtdep, UnknownAt: st.rtwhere, Where: pi.c.InstrPos(in)})
				return
			case *ssa.Panic:
				out = append(out, pathResult{Verdict: "reject", ExitCode: 2, Effects: st.effects, StderrWritten: true, RuntimeDep: st.rtdep, UnknownAt: st.rtwhere, Where: pi.c.InstrPos(in)})
				return
			case *ssa.Call:
				k := calleeKey(&x.Call)
				if k == "os.Exit" {
					code, _ := constInt(x.Call.Args[0])
					v := "reject"
					if code == 0 {
						v = "silent-return"
					}
					out = append(out, pathResult{Verdict: v, ExitCode: code, Effects: st.effects, StderrWritten: st.stderr, RuntimeDep: st.rtdep, UnknownAt: st.rtwhere, Where: pi.c.InstrPos(in)})
					return
				}
				if mode, ok := pi.procMode[k]; ok {
					out = append(out, pathResult{Verdict: "accept", Mode: mode, Effects: st.effects, StderrWritten: st.stderr, RuntimeDep: st.rtdep, UnknownAt: st.rtwhere, Where: pi.c.InstrPos(in)})
					return
				}
				if strings.HasPrefix(k, "fmt.Fprint") && len(x.Call.Args) > 0 {
					if isStderr(x.Call.Args[0]) {
						st.stderr = true
					}
				}
				if l, ok := pi.effectFn[k]; ok {
					st.effects = append(st.effects, l)
				}
				st.env[x] = pi.evalCall(x, st, at)
			default:
				if v, ok := in.(ssa.Value); ok {
					st.env[v] = pi.eval(v, st, at)
				}
			}
		}
	}
	st := &pState{env: map[ssa.Value]aVal{}}
	walk(pi.fn.Blocks[0], nil, st, map[*ssa.BasicBlock]int{})
	return out
}

func isStderr(v ssa.Value) bool {
	v = peel(v)
	if u, ok := v.(*ssa.UnOp); ok {
		if g, ok := u.X.(*ssa.Global); ok && g.Name() == "Stderr" && g.Pkg != nil && g.Pkg.Pkg.Path() == "os" {
			return true
		}
	}
	return false
}

func (pi *presenceInterp) evalCall(x *ssa.Call, st *pState, at presenceAtoms) aVal {
	k := calleeKey(&x.Call)
	switch k {
	case "os.Getenv":
		if name, ok := constString(x.Call.Args[0]); ok && (name == "ATLAS_PUBLIC_KEY" || name == "ATLAS_PRIVATE_KEY") {
			return aStrV(at.Env)
		}
		return aTop
	case "builtin len":
		a := pi.eval(x.Call.Args[0], st, at)
		if a.K == aSliceLen {
			return aVal{K: aInt, Known: a.Known, N: a.N, NonZero: a.NonZero, NonNeg: true}
		}
		if a.K == aStr && a.Known {
			if a.N == 0 {
				return aIntV(0)
			}
			return aVal{K: aInt, NonZero: true, NonNeg: true}
		}
		return aTop
	}
	return aTop
}

func (pi *presenceInterp) eval(v ssa.Value, st *pState, at presenceAtoms) aVal {
	if v == pi.stdinVal {
		return aBoolV(at.Stdin)
	}
	if av, ok := st.env[v]; ok {
		return av
	}
	switch x := v.(type) {
	case *ssa.Const:
		if s, ok := constString(x); ok {
			return aStrV(s != "")
		}
		if n, ok := constInt(x); ok {
			return aIntV(n)
		}
		if b, ok := constBool(x); ok {
			return aBoolV(b)
		}
		return aTop
	case *ssa.Parameter:
		// args []string: length is the file-argument atom (cobra.MaximumNArgs(1))
		if _, isSlice := x.Type().Underlying().(*types.Slice); isSlice {
			return aVal{K: aSliceLen, Known: true, N: b2i(at.File)}
		}
		return aTop
	case *ssa.UnOp:
		switch x.Op {
		case token.MUL:
			if name, ok := pi.an.flagOfValue(pi.fn, x); ok {
				return pi.flagValue(name, at)
			}
			if ia, ok := x.X.(*ssa.IndexAddr); ok {
				// args[0]: a non-empty string when present
				if a := pi.eval(ia.X, st, at); a.K == aSliceLen {
					return aStrV(true)
				}
			}
			return aTop
		case token.NOT:
			a := pi.eval(x.X, st, at)
			if a.K == aBool && a.Known {
				return aBoolV(a.N == 0)
			}
			return aTop
		}
	case *ssa.BinOp:
		l, r := pi.eval(x.X, st, at), pi.eval(x.Y, st, at)
		return cmpAbstract(x.Op, l, r)
	case *ssa.Call:
		return pi.evalCall(x, st, at)
	case *ssa.Convert:
		return pi.eval(x.X, st, at)
	}
	return aTop
}

func cmpAbstract(op token.Token, l, r aVal) aVal {
	if l.K == aStr && r.K == aStr && l.Known && r.Known {
		switch op {
		case token.EQL, token.NEQ:
			// decided only when one side is the empty string
			if l.N == 0 || r.N == 0 {
				eq := l.N == r.N
				return aBoolV(eq == (op == token.EQL))
			}
		}
		return aTop
	}
	if l.K == aInt && r.K == aInt {
		if l.Known && r.Known {
			switch op {
			case token.EQL:
				return aBoolV(l.N == r.N)
			case token.NEQ:
				return aBoolV(l.N != r.N)
			case token.LSS:
				return aBoolV(l.N < r.N)
			case token.GTR:
				return aBoolV(l.N > r.N)
			case token.LEQ:
				return aBoolV(l.N <= r.N)
			case token.GEQ:
				return aBoolV(l.N >= r.N)
			}
		}
		// non-zero vs 0
		nz, z := l, r
		if !(nz.NonZero && z.Known && z.N == 0) {
			nz, z = r, l
		}
		if nz.NonZero && z.Known && z.N == 0 {
			switch op {
			case token.EQL:
				return aBoolV(false)
			case token.NEQ:
				return aBoolV(true)
			case token.GTR, token.LSS, token.GEQ, token.LEQ:
				// lengths are non-negative; int flags may be negative: only decide for lengths
				if nz.NonNeg {
					// nz > 0 holds
					nzIsLeft := nz == l
					switch {
					case op == token.GTR && nzIsLeft, op == token.LSS && !nzIsLeft:
						return aBoolV(true)
					case op == token.LEQ && nzIsLeft, op == token.GEQ && !nzIsLeft:
						return aBoolV(false)
					case op == token.GEQ && nzIsLeft, op == token.LEQ && !nzIsLeft:
						return aBoolV(true)
					case op == token.LSS && nzIsLeft, op == token.GTR && !nzIsLeft:
						return aBoolV(false)
					}
				}
			}
		}
		return aTop
	}
	if l.K == aBool && r.K == aBool && l.Known && r.Known {
		switch op {
		case token.EQL:
			return aBoolV(l.N == r.N)
		case token.NEQ:
			return aBoolV(l.N != r.N)
		}
	}
	return aTop
}

func (at presenceAtoms) String() string {
	var on []string
	if at.File {
		on = append(on, "file")
	}
	if at.Stdin {
		on = append(on, "stdin")
	}
	if at.Env {
		on = append(on, "envKeys")
	}
	for _, f := range presenceFlagAtoms {
		if at.Flags[f] {
			on = append(on, f)
		}
	}
	if len(on) == 0 {
		return "{}"
	}
	return "{" + strings.Join(on, ",") + "}"
}

func atomsFromBits(bits int) presenceAtoms {
	at := presenceAtoms{Flags: map[string]bool{}}
	at.File = bits&1 != 0
	at.Stdin = bits&2 != 0
	at.Env = bits&4 != 0
	for i, f := range presenceFlagAtoms {
		at.Flags[f] = bits&(8<<uint(i)) != 0
	}
	return at
}

// specVerdict: the rule table written from the property statement and the README.
// Returns (accept, mode, dontCare).
func specVerdict(at presenceAtoms) (bool, string, bool) {
	f := at.Flags
	atlas := f["atlasProjectId"] || f["atlasClusterName"] || f["atlasPublicKey"] || f["atlasPrivateKey"] || f["atlasLogStartDate"] || f["atlasLogEndDate"]
	if f["redactFieldsRegexp"] && f["redactFieldNames"] {
		return false, "", false
	}
	if f["atlasLogStartDate"] != f["atlasLogEndDate"] {
		return false, "", false
	}
	sources := 0
	mode := ""
	if at.File {
		sources++
		mode = "file"
	}
	if at.Stdin {
		sources++
		mode = "stdin"
	}
	if atlas {
		sources++
		mode = "atlas"
	}
	if sources != 1 {
		return false, "", false
	}
	if atlas {
		pub := f["atlasPublicKey"] || at.Env
		priv := f["atlasPrivateKey"] || at.Env
		if !(f["atlasProjectId"] && f["atlasClusterName"] && f["outputFile"] && pub && priv) {
			return false, "", false
		}
		if f["encrypt"] {
			return true, mode, true // encrypt + atlas: the statement does not settle it
		}
		return true, mode, false
	}
	if f["encrypt"] {
		if !(at.File && !at.Stdin && f["outputFile"]) {
			return false, "", false
		}
	}
	return true, mode, false
}

func describeResults(rs []pathResult) string {
	var ps []string
	for _, r := range rs {
		s := r.Verdict
		if r.Mode != "" {
			s += ":" + r.Mode
		}
		if r.RuntimeDep {
			s += "(runtime-dependent)"
		}
		if len(r.Effects) > 0 {
			s += fmt.Sprintf(" after %v", r.Effects)
		}
		ps = append(ps, s)
	}
	sort.Strings(ps)
	return strings.Join(dedupe(ps), " | ")
}
