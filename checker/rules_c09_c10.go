package main

import (
	"fmt"
	"go/token"
	"go/types"
	"sort"
	"strings"

	"golang.org/x/tools/go/ssa"
)

func init() {
	register(&propDef{
		ID:          "C09",
		Run:         ruleC09,
		Explanation: "Decides sibling agreement between the encrypting and the decrypting side and fail-closed handling in the decrypt command (structural necessary conditions of C09): Encrypt and Decrypt build their primitive through the same chain from the key parameter and pass identical associated data; the text leaving the redactor is E.EncodeToString(ciphertext) and the text entering Decrypt is E.DecodeString(arg) for the same base64 encoding with only string/[]byte conversions around; key reader and key writer use one encoding; the plaintext print is dominated by err==nil of key read, base64 decode and Decrypt, and each error exits non-zero. NOT decided: AES-SIV correctness/authenticity (Tink), behaviour for every Unicode string, JSON escaping of the base64 text.",
		RuleText:    "obligations = primitive chains, associated-data operands, encoding objects, conversions on the plaintext/ciphertext path, error tests of the decrypt command",
	})
	register(&propDef{
		ID:          "C10",
		Run:         ruleC10,
		Explanation: "Decides (structural necessary conditions of C10): the string-replacement choke point never returns its plaintext parameter or anything derived from it other than ciphertext (fail closed, also when encryption errors or no key is loaded); Encrypt is called from exactly one place and every string leaf the scalar step replaces goes through that place, numbers/booleans never; nothing reachable from Encrypt inside the package reads time/randomness/environment, associated data is constant, the key global is stored only by its setter which is called only from the redact command before processing; whenever encrypt mode is switched on, a key obtained from the generator or the validated reader (error tested nil) is installed before the first processing call on every path. NOT decided: determinism/injectivity of Tink's AES-SIV itself.",
		RuleText:    "obligations = returns of the string choke point (taint from the plaintext parameter), call sites of Encrypt, string-typed returns of the scalar step, effect calls reachable from Encrypt, stores to the key global, paths from SetShouldEncrypt to processing calls",
	})
}

const daeadIface = "invoke (github.com/tink-crypto/tink-go/v2/tink.DeterministicAEAD)."

// cryptoChain describes how a function obtains and uses its DAEAD primitive.
type cryptoChain struct {
	fn        *ssa.Function
	opCall    *ssa.Call // Encrypt/DecryptDeterministically
	chainOK   bool
	why       string
	adIsNil   bool
	adConst   string
	dataParam int
	keyParam  int
}

func (c *Ctx) cryptoChainOf(fn *ssa.Function, op string) *cryptoChain {
	cc := &cryptoChain{fn: fn, dataParam: -1, keyParam: -1}
	calls := callsIn(fn, func(k string, _ *ssa.Call) bool { return k == daeadIface+op })
	if len(calls) != 1 {
		cc.why = fmt.Sprintf("%d calls of %s", len(calls), op)
		return cc
	}
	cc.opCall = calls[0]
	prim := c.throughMemo(fn, cc.opCall.Call.Value, cc.opCall.Block())
	// prim <- extract#0 daead.New(kh) ; kh <- extract#0 keysetHandleFromRawKey(keyParam)
	nc, ok := defAt(prim, cc.opCall.Block()).(*ssa.Extract)
	if !ok {
		cc.why = "primitive is not the result of a constructor call"
		return cc
	}
	newCall, ok := nc.Tuple.(*ssa.Call)
	if !ok || calleeKey(&newCall.Call) != "github.com/tink-crypto/tink-go/v2/daead.New" {
		cc.why = "primitive does not come from daead.New"
		return cc
	}
	khx, ok := defAt(newCall.Call.Args[0], newCall.Block()).(*ssa.Extract)
	if !ok {
		cc.why = "keyset handle is not a call result"
		return cc
	}
	khCall, ok := khx.Tuple.(*ssa.Call)
	if !ok || c.staticPkgCallee(&khCall.Call) == nil {
		cc.why = "keyset handle does not come from the package's raw-key helper"
		return cc
	}
	cc.adConst = fnFullName(c.staticPkgCallee(&khCall.Call))
	for i, p := range fn.Params {
		if defAt(khCall.Call.Args[0], khCall.Block()) == ssa.Value(p) {
			cc.keyParam = i
		}
		if defAt(cc.opCall.Call.Args[0], cc.opCall.Block()) == ssa.Value(p) {
			cc.dataParam = i
		}
	}
	cc.adIsNil = isNilConst(cc.opCall.Call.Args[1])
	cc.chainOK = cc.keyParam >= 0 && cc.dataParam >= 0 && cc.keyParam != cc.dataParam
	if !cc.chainOK {
		cc.why = "key/data operands are not the function's own (distinct) parameters"
	}
	return cc
}

// encodingGlobal returns the name of the *base64.Encoding global used as receiver.
func encodingGlobal(v ssa.Value) string {
	// E.Strict() is the same alphabet and padding as E (only malformed input is refused)
	if call, ok := v.(*ssa.Call); ok && calleeKey(&call.Call) == "(encoding/base64.Encoding).Strict" && len(call.Call.Args) > 0 {
		if ld, ok := call.Call.Args[0].(*ssa.UnOp); ok {
			return encodingGlobal(ld.X)
		}
		return encodingGlobal(call.Call.Args[0])
	}
	if u, ok := v.(*ssa.UnOp); ok {
		if inner, ok := u.X.(*ssa.UnOp); ok {
			return encodingGlobal(inner)
		}
		if g, ok := u.X.(*ssa.Global); ok {
			return g.Pkg.Pkg.Path() + "." + g.Name()
		}
	}
	return ""
}

func ruleC09(c *Ctx, r *Report) {
	an := c.anchors()
	if !requireAnchors(r, an, "C09-anchor", "decrypt") {
		return
	}
	enc, dec := c.Fn("Encrypt"), c.Fn("Decrypt")
	if enc == nil || dec == nil {
		r.Undecided("C09-anchor", "Encrypt/Decrypt", "-", "Encrypt or Decrypt not found")
		return
	}
	// ---- R1 same primitive, same associated data
	r.Floor("C09-R1", 2, "chain + associated data")
	ce := c.cryptoChainOf(enc, "EncryptDeterministically")
	cd := c.cryptoChainOf(dec, "DecryptDeterministically")
	r.Check(ce.chainOK && cd.chainOK && ce.adConst == cd.adConst, "C09-R1", "primitive-chain-agreement", c.Pos(enc.Pos()),
		"both sides: key param -> "+shortKey(ce.adConst)+" -> daead.New -> primitive(data param, ad)",
		fmt.Sprintf("Encrypt and Decrypt do not build their primitive the same way: encrypt[%s] decrypt[%s] helpers %q vs %q", ce.why, cd.why, ce.adConst, cd.adConst))
	if ce.opCall != nil && cd.opCall != nil {
		r.Check(ce.adIsNil && cd.adIsNil, "C09-R1", "associated-data-agreement", c.InstrPos(ce.opCall),
			"associated data is the nil constant on both sides",
			fmt.Sprintf("associated data differs or is not constant: encrypt nil=%v decrypt nil=%v", ce.adIsNil, cd.adIsNil))
	}

	// the two siblings reach their primitive under the same preconditions: only error tests
	// of the set-up calls - no test on the data (a length guard on one side rejects
	// ciphertexts the other side produces, e.g. the 16-byte ciphertext of the empty string)
	for _, cc := range []*cryptoChain{ce, cd} {
		if cc.opCall == nil {
			continue
		}
		var bad []string
		nGuards := 0
		for _, f := range factsAt(cc.opCall.Block()) {
			nGuards++
			okGuard := false
			if bo, ok := f.Cond.(*ssa.BinOp); ok {
				if v, _, isNilCmp := nilCompare(bo); isNilCmp && isErrorType(v.Type()) {
					okGuard = true
				}
			}
			if !okGuard && cc.dataParam >= 0 && cc.dataParam < len(cc.fn.Params) && !valueDependsOn(f.Cond, cc.fn.Params[cc.dataParam], 0) {
				okGuard = true // a test that does not look at the data (e.g. on the key)
			}
			if !okGuard {
				bad = append(bad, describeCond(f.Cond)+" at "+c.InstrPos(f.If))
			}
		}
		// and the data handed to the primitive is the parameter itself
		dataOK := false
		if len(cc.opCall.Call.Args) > 0 {
			if _, isP := cc.opCall.Call.Args[0].(*ssa.Parameter); isP {
				dataOK = true
			}
		}
		if !dataOK {
			bad = append(bad, "the data handed to the primitive is not the function's parameter as received")
		}
		r.Check(len(bad) == 0, "C09-R1", cc.fn.Name()+":preconditions", c.InstrPos(cc.opCall),
			fmt.Sprintf("the primitive is reached under %d error test(s) of the set-up calls only, with the data parameter as received", nGuards),
			"the primitive call is additionally guarded by, or fed with, something computed from the data: "+strings.Join(bad, "; "))
	}

	// ---- R2 same encoding, only conversions around
	r.Floor("C09-R2", 4, "encode side, decode side, plaintext in, plaintext out")
	{
		p9 := c.prov()
		if len(p9.Problems) == 0 {
			chokeReturnsRule(c, r, p9, c.placeholders(p9), "C09-R2")
		}
	}
	encKey, decKey := fnFullName(enc), fnFullName(dec)
	var encSites []*ssa.Call
	for _, f := range c.SortedFuncs() {
		if !c.lineScope()[f] {
			continue // a call outside everything that sees log content (a key self-test of the command) encrypts no log value
		}
		encSites = append(encSites, callsIn(f, func(k string, _ *ssa.Call) bool { return k == encKey })...)
	}
	encodingUsed := ""
	for _, es := range encSites {
		f := es.Parent()
		// plaintext -> Encrypt: only a []byte conversion of a string parameter
		conv, ok := es.Call.Args[0].(*ssa.Convert)
		_, isParam := ssa.Value(nil), false
		if ok {
			_, isParam = conv.X.(*ssa.Parameter)
		}
		r.Check(ok && isParam, "C09-R2", f.Name()+":plaintext-to-Encrypt", c.InstrPos(es),
			"Encrypt receives []byte(param) unchanged", "the plaintext is transformed (trimmed/sliced/folded) before encryption, so it cannot decrypt back to the original")
		if ok && isParam {
			prm := conv.X.(*ssa.Parameter)
			pidx := -1
			for pi, q := range f.Params {
				if q == prm {
					pidx = pi
				}
			}
			for _, site := range c.callersOf(f) {
				if pidx < 0 || pidx >= len(site.Call.Args) {
					continue
				}
				arg := site.Call.Args[pidx]
				base := rootOf(arg)
				_, isCall := base.(*ssa.Call)
				_, isBin := base.(*ssa.BinOp)
				_, isSl := base.(*ssa.Slice)
				_, isConv := base.(*ssa.Convert)
				untouched := !(isCall || isBin || isSl || isConv)
				r.Check(untouched, "C09-R2", fmt.Sprintf("%s:plaintext-into-%s", site.Parent().Name(), f.Name()), c.InstrPos(site),
					"the string handed to the encrypting choke point is the input leaf itself (type assertion only)",
					"the input leaf is transformed ("+describeArg(base)+") before it is encrypted: decryption yields the transformed text, not the original")
			}
		}
		// ciphertext -> EncodeToString(E, ct) returned
		ct := extractOf(es, 0)
		found := false
		allInstrs(f, func(i ssa.Instruction) {
			call, ok := i.(*ssa.Call)
			if !ok || calleeKey(&call.Call) != "(*encoding/base64.Encoding).EncodeToString" {
				return
			}
			if ct != nil && call.Call.Args[1] == ssa.Value(ct) {
				found = true
				encodingUsed = encodingGlobal(call.Call.Args[0])
				returned := false
				for _, rr := range referrers(call) {
					if _, ok := rr.(*ssa.Return); ok {
						returned = true
					}
				}
				r.Check(returned && encodingUsed != "", "C09-R2", f.Name()+":ciphertext-encoding", c.InstrPos(i),
					"returns "+encodingUsed+".EncodeToString(ciphertext) unchanged", "the encoded ciphertext is post-processed before being emitted")
			}
		})
		if !found {
			r.Bad("C09-R2", f.Name()+":ciphertext-encoding", c.InstrPos(es), "ciphertext is not emitted as base64 EncodeToString of the Encrypt result")
		}
	}
	dc := an.DecryptClosure
	for _, ds := range callsIn(dc, func(k string, _ *ssa.Call) bool { return k == decKey }) {
		// data arg <- extract#0 of E'.DecodeString(arg) with arg = args[i] directly
		okDec := false
		detail := "Decrypt input is not the base64 decoding of the command argument"
		if ex, ok := resolveAt(ds.Call.Args[0], ds.Block()).(*ssa.Extract); ok {
			if dcall, ok := ex.Tuple.(*ssa.Call); ok && calleeKey(&dcall.Call) == "(*encoding/base64.Encoding).DecodeString" {
				e2 := encodingGlobal(dcall.Call.Args[0])
				argOK := false
				if u, ok := dcall.Call.Args[1].(*ssa.UnOp); ok {
					if ia, ok := u.X.(*ssa.IndexAddr); ok {
						if _, ok := ia.X.(*ssa.Parameter); ok {
							argOK = true
						}
					}
				}
				if e2 == encodingUsed && e2 != "" && argOK {
					okDec = true
					detail = "Decrypt(" + e2 + ".DecodeString(args[i])): same encoding object as the encrypting side, argument unmodified"
				} else {
					detail = fmt.Sprintf("decode side uses %q on %s, encode side uses %q", e2, map[bool]string{true: "the raw argument", false: "a transformed argument"}[argOK], encodingUsed)
				}
			}
		}
		r.Check(okDec, "C09-R2", dc.Name()+":ciphertext-decoding", c.InstrPos(ds), detail, detail)
		// ... and the decoding is strict: encoding/base64 otherwise ignores the unused trailing
		// bits of the last quantum and skips CR / LF, so several texts decode to one ciphertext
		// and an altered text is accepted instead of refused
		if ex, ok := resolveAt(ds.Call.Args[0], ds.Block()).(*ssa.Extract); ok {
			if dcall, ok := ex.Tuple.(*ssa.Call); ok && calleeKey(&dcall.Call) == "(*encoding/base64.Encoding).DecodeString" {
				strict := false
				var visit func(v ssa.Value, depth int)
				visit = func(v ssa.Value, depth int) {
					if depth > 4 || v == nil {
						return
					}
					switch x := v.(type) {
					case *ssa.Call:
						if calleeKey(&x.Call) == "(encoding/base64.Encoding).Strict" {
							strict = true
						}
					case *ssa.Alloc:
						for _, rr := range referrers(x) {
							if st, ok := rr.(*ssa.Store); ok && st.Addr == ssa.Value(x) {
								visit(st.Val, depth+1)
							}
						}
					case *ssa.UnOp:
						visit(x.X, depth+1)
					case *ssa.Global:
						// a package-level encoding object: what the package initialiser stores into it
						if x.Pkg == c.SPkg {
							if ini := c.SPkg.Func("init"); ini != nil {
								allInstrs(ini, func(i ssa.Instruction) {
									if st, ok := i.(*ssa.Store); ok && st.Addr == ssa.Value(x) {
										visit(st.Val, depth+1)
									}
								})
							}
						}
					}
				}
				visit(dcall.Call.Args[0], 0)
				noNewlines := false
				for _, f := range allFacts(dcall.Block()) {
					if cc, ok := f.Cond.(*ssa.Call); ok && !f.Pol && calleeKey(&cc.Call) == "strings.ContainsAny" && cc.Call.Args[0] == dcall.Call.Args[1] {
						if set, ok := constString(cc.Call.Args[1]); ok && strings.Contains(set, "\r") && strings.Contains(set, "\n") {
							noNewlines = true
						}
					}
				}
				r.Check(strict && noNewlines, "C09-R2", dc.Name()+":ciphertext-decoding-is-strict", c.InstrPos(dcall),
					"the ciphertext text is decoded strictly (no ignored trailing bits) after CR / LF have been refused: one text per ciphertext",
					fmt.Sprintf("lenient base64 decoding (strict=%v, CR/LF refused=%v): a ciphertext text altered in its last character or by an inserted line break is accepted and decrypts, instead of failing", strict, noNewlines))
			}
		}
		// plaintext out: only string(pt), optionally concatenated with constants, printed
		pt := extractOf(ds, 0)
		okOut := pt != nil
		var outBad []string
		nPrints := 0
		if pt != nil {
			seen := map[ssa.Value]bool{}
			var follow func(v ssa.Value)
			follow = func(v ssa.Value) {
				if seen[v] {
					return
				}
				seen[v] = true
				for _, rr := range referrers(v) {
					switch x := rr.(type) {
					case *ssa.DebugRef:
					case *ssa.Convert:
						if v == ssa.Value(pt) && !isStringType(x.Type()) {
							outBad = append(outBad, "converted to "+x.Type().String()+" at "+c.InstrPos(rr))
							continue
						}
						follow(x)
					case *ssa.BinOp:
						// concatenation with a constant label
						other := x.X
						if other == v {
							other = x.Y
						}
						if _, isC := other.(*ssa.Const); x.Op == token.ADD && isC {
							follow(x)
						} else {
							outBad = append(outBad, "combined in "+x.String()+" at "+c.InstrPos(rr))
						}
					case *ssa.MakeInterface:
						follow(x)
					case *ssa.Phi:
						// joined with the zero value of the error paths (result temporary of an inlined helper)
						okJoin := true
						for _, e := range x.Edges {
							if e == v {
								continue
							}
							if cs, isC := constString(e); !isC || cs != "" {
								okJoin = false
							}
						}
						if okJoin {
							follow(x)
						} else {
							outBad = append(outBad, "merged with another value at "+c.InstrPos(rr))
						}
					case *ssa.Store:
						if ia, ok := x.Addr.(*ssa.IndexAddr); ok {
							if al, ok := ia.X.(*ssa.Alloc); ok {
								for _, ar := range referrers(al) {
									if sl, ok := ar.(*ssa.Slice); ok {
										follow(sl)
									}
								}
								continue
							}
						}
						outBad = append(outBad, "stored at "+c.InstrPos(rr))
					case *ssa.Call:
						k := calleeKey(&x.Call)
						if k == "fmt.Println" || k == "fmt.Print" || k == "fmt.Fprintln" || k == "fmt.Fprint" {
							nPrints++
							continue
						}
						outBad = append(outBad, "passed through "+shortKey(k)+" at "+c.InstrPos(rr))
					default:
						outBad = append(outBad, fmt.Sprintf("used by %T at %s", rr, c.InstrPos(rr)))
					}
				}
			}
			follow(pt)
		}
		sort.Strings(outBad)
		okOut = okOut && len(outBad) == 0 && nPrints >= 1
		r.Check(okOut, "C09-R2", dc.Name()+":plaintext-out", c.InstrPos(ds), "decrypted bytes are converted to string, prefixed with a constant label and printed - nothing else touches them", fmt.Sprintf("the decrypted text is transformed or diverted before it is printed (prints reached: %d): %s", nPrints, strings.Join(outBad, "; ")))
	}

	// ---- R3 key agreement
	r.Floor("C09-R3", 2, "decrypt key source + key encoding agreement")
	rk := c.Fn("ReadKeyFromFile")
	wk := c.Fn("WriteKeyToFile")
	for _, ds := range callsIn(dc, func(k string, _ *ssa.Call) bool { return k == decKey }) {
		okKey := false
		if ex, ok := ds.Call.Args[1].(*ssa.Extract); ok && rk != nil {
			if kc, ok := ex.Tuple.(*ssa.Call); ok && kc.Call.StaticCallee() == rk && ex.Index == 0 {
				okKey = true
			}
		}
		r.Check(okKey, "C09-R3", dc.Name()+":key-source", c.InstrPos(ds), "Decrypt key is the unmodified result of the validated key reader (the same reader the redact command uses)", "the decrypt command's key is not the key reader's result")
	}
	if rk != nil && wk != nil {
		var eR, eW string
		allInstrs(rk, func(i ssa.Instruction) {
			if call, ok := i.(*ssa.Call); ok && calleeKey(&call.Call) == "(*encoding/base64.Encoding).DecodeString" {
				eR = encodingGlobal(call.Call.Args[0])
			}
		})
		allInstrs(wk, func(i ssa.Instruction) {
			if call, ok := i.(*ssa.Call); ok && calleeKey(&call.Call) == "(*encoding/base64.Encoding).EncodeToString" {
				eW = encodingGlobal(call.Call.Args[0])
			}
		})
		r.Check(eR != "" && eR == eW, "C09-R3", "key-file-encoding-agreement", c.Pos(rk.Pos()), "key writer and reader use "+eR, fmt.Sprintf("key writer encodes with %q, reader decodes with %q", eW, eR))
	} else {
		r.Undecided("C09-R3", "key-file-encoding-agreement", "-", "key reader/writer not found")
	}
	// redact side key source is covered by C11-R2 / C10-R4.

	// ---- R4 fail closed in the decrypt command
	r.Floor("C09-R4", 4, "three error tests + the print")
	var errCalls []*ssa.Call
	for _, call := range callsIn(dc, func(k string, _ *ssa.Call) bool {
		return k == decKey || k == "(*encoding/base64.Encoding).DecodeString" || (rk != nil && k == fnFullName(rk))
	}) {
		errCalls = append(errCalls, call)
		okh, detail := checkCallErrHandled(call, false, nil)
		r.Check(okh, "C09-R4", fmt.Sprintf("%s:err(%s)", dc.Name(), shortKey(calleeKey(&call.Call))), c.InstrPos(call), detail, "decrypt continues after a failure: "+detail)
	}
	// every print of data derived from the Decrypt result is dominated by all err==nil
	t := NewTaint(c)
	var seeds []ssa.Value
	for _, ds := range callsIn(dc, func(k string, _ *ssa.Call) bool { return k == decKey }) {
		seeds = append(seeds, extractOf(ds, 0))
	}
	t.Run(seeds...)
	allInstrs(dc, func(i ssa.Instruction) {
		call, ok := i.(*ssa.Call)
		if !ok || !strings.HasPrefix(calleeKey(&call.Call), "fmt.") {
			return
		}
		uses := false
		for _, a := range call.Call.Args {
			if t.Has(a) {
				uses = true
			}
		}
		if !uses {
			return
		}
		facts := allFacts(call.Block())
		all := true
		for _, ec := range errCalls {
			ev := extractOf(ec, 1)
			_, isNil := factNil(facts, ev)
			if !isNil && ev != nil {
				// or: no path from the err != nil edge of its test reaches this print
				// (edges decided by result temporaries are not followed)
				// or: with the err == nil edges of its tests removed the print cannot be reached at
				// all (edges decided by result temporaries of inlined helpers are not followed)
				tests := errTestsOf(ev)
				nilEdge := map[[2]*ssa.BasicBlock]bool{}
				for _, t := range tests {
					if t.NilSucc != nil && t.NilSucc != t.NonNilSucc {
						nilEdge[[2]*ssa.BasicBlock{t.If.Block(), t.NilSucc}] = true
					}
				}
				isNil = len(nilEdge) > 0 && !reachesBlockAvoiding(dc.Blocks[0], nil, call.Block(), func(a, b *ssa.BasicBlock) bool { return nilEdge[[2]*ssa.BasicBlock{a, b}] })
			}
			if !isNil {
				all = false
			}
		}
		r.Check(all && len(errCalls) >= 3, "C09-R4", dc.Name()+":print-plaintext", c.InstrPos(i), "plaintext printed only when key read, base64 decode and Decrypt all succeeded", "a value derived from Decrypt's result can be printed although an error occurred (wrong plaintext instead of an error)")
	})
}

var nondeterministicPrefixes = []string{"time.", "math/rand", "crypto/rand.", "os.Getenv", "os.Getpid", "os.Hostname", "os.Environ", "os.LookupEnv"}

func isNondeterministic(k string) bool {
	k = strings.TrimPrefix(k, "invoke ")
	k = strings.TrimPrefix(k, "(*")
	k = strings.TrimPrefix(k, "(")
	for _, p := range nondeterministicPrefixes {
		if strings.HasPrefix(k, p) {
			return true
		}
	}
	return false
}

func ruleC10(c *Ctx, r *Report) {
	an := c.anchors()
	if !requireAnchors(r, an, "C10-anchor", "redact") {
		return
	}
	enc := c.Fn("Encrypt")
	if enc == nil {
		r.Undecided("C10-anchor", "Encrypt", "-", "Encrypt not found")
		return
	}
	encKey := fnFullName(enc)
	// the ciphertext is used only where Encrypt's error was found nil (and the plaintext of
	// Decrypt likewise): every function of the package that calls them
	{
		var users []*ssa.Function
		for _, f := range c.SortedFuncs() {
			if f == enc || f == c.Fn("Decrypt") {
				continue
			}
			if hasCallTo(f, encKey) || (c.Fn("Decrypt") != nil && hasCallTo(f, fnFullName(c.Fn("Decrypt")))) {
				users = append(users, f)
			}
		}
		resultAfterErrorCheckRuleFor(c, r, users, "C10-R1", map[*ssa.Function]bool{enc: true, c.Fn("Decrypt"): true}, true)
	}
	var sites []*ssa.Call
	outside := 0
	for _, f := range c.SortedFuncs() {
		cs := callsIn(f, func(k string, _ *ssa.Call) bool { return k == encKey })
		if !c.lineScope()[f] {
			// outside everything that sees log content (e.g. a key self-test in the command):
			// no log value can be encrypted there
			outside += len(cs)
			continue
		}
		sites = append(sites, cs...)
	}
	r.Analysed["encrypt_calls_outside_the_line_scope"] = outside
	// ---- R2 single choke point
	r.Floor("C10-R2", 2, "one Encrypt site + string returns of the scalar step")
	r.Check(len(sites) == 1, "C10-R2", "Encrypt:call-sites", c.Pos(enc.Pos()), "Encrypt is called from exactly one function", fmt.Sprintf("Encrypt is called from %d places: the placeholder logic can be bypassed", len(sites)))
	if len(sites) == 0 {
		return
	}
	choke := sites[0].Parent()
	r.Analysed["choke_point"] = choke.Name()

	// ---- R1 fail closed: no return of the choke point carries the plaintext
	r.Floor("C10-R1", 2, "returns of the choke point")
	for _, site := range sites {
		f := site.Parent()
		conv, _ := site.Call.Args[0].(*ssa.Convert)
		var plain ssa.Value
		if conv != nil {
			plain = conv.X
		} else {
			plain = site.Call.Args[0]
		}
		t := NewTaint(c)
		t.Stop[enc] = true
		t.LibThrough = func(call *ssa.Call, key string) bool { return true }
		t.Run(plain)
		n := 0
		allInstrs(f, func(i ssa.Instruction) {
			ret, ok := i.(*ssa.Return)
			if !ok {
				return
			}
			n++
			bad := false
			for _, res := range ret.Results {
				if t.Has(res) || t.Has(resolveLocal(res)) {
					bad = true
				}
			}
			guard := describeFacts(c, allFacts(ret.Block()))
			r.Check(!bad, "C10-R1", fmt.Sprintf("%s:return[%s]", f.Name(), guard), c.InstrPos(i), "return value is not derived from the plaintext parameter", "the plaintext parameter itself is returned (fail-open): a sensitive string is emitted in clear when encryption cannot be performed")
		})
	}
	// every string-typed return of a caller of the choke point is a choke-point result (or the raw input, which C01 judges)
	chokeKey := fnFullName(choke)
	for _, sc := range c.callersOf(choke) {
		_ = sc
	}
	scalarFns := map[*ssa.Function]bool{}
	for _, call := range c.callersOf(choke) {
		scalarFns[call.Parent()] = true
		// the plaintext argument must be a string assertion of an interface value (string leaves only)
		argOK := false
		if ta, ok := call.Call.Args[0].(*ssa.TypeAssert); ok && isStringType(ta.AssertedType) {
			argOK = true
		}
		if ex, ok := call.Call.Args[0].(*ssa.Extract); ok {
			if ta, ok := ex.Tuple.(*ssa.TypeAssert); ok && isStringType(ta.AssertedType) {
				argOK = true
			}
		}
		r.Check(argOK, "C10-R2", fmt.Sprintf("%s:choke-arg(%s)", call.Parent().Name(), placeholderName(call.Call.Args[1])), c.InstrPos(call), "the choke point receives v.(string): only string leaves are encrypted", "a non-string leaf (number/boolean rendering) is passed to the encrypting choke point")
	}
	for f := range scalarFns {
		allInstrs(f, func(i ssa.Instruction) {
			ret, ok := i.(*ssa.Return)
			if !ok {
				return
			}
			for _, res := range ret.Results {
				v := peel(res)
				if !isStringType(v.Type()) {
					continue
				}
				isChoke := false
				if call, ok := v.(*ssa.Call); ok && calleeKey(&call.Call) == chokeKey {
					isChoke = true
				}
				if !isChoke {
					// only returns on paths where the input leaf is known to be a string are
					// "replaced string leaves"; other arms (null / unknown kinds) are C03's concern
					inStringArm := false
					for _, fct := range allFacts(ret.Block()) {
						if ex, ok := fct.Cond.(*ssa.Extract); ok && fct.Pol && ex.Index == 1 {
							if ta, ok := ex.Tuple.(*ssa.TypeAssert); ok && isStringType(ta.AssertedType) {
								inStringArm = true
							}
						}
					}
					if !inStringArm {
						continue
					}
				}
				r.Check(isChoke, "C10-R2", fmt.Sprintf("%s:string-return(%s)", f.Name(), valueLabel(v)), c.InstrPos(i), "string leaf produced by the choke point", "a replaced string leaf bypasses the encrypt-or-placeholder choke point: in encrypt mode it is emitted as a placeholder, not as ciphertext")
			}
		})
	}

	// ---- R3 determinism
	r.Floor("C10-R3", 3, "effect scan, key stores, setter callers")
	keysetConstantsRule(c, r, enc, "C10-R3")
	{
		p10 := c.prov()
		if len(p10.Problems) == 0 {
			chokeReturnsRule(c, r, p10, c.placeholders(p10), "C10-R1")
		}
	}
	reach := c.pkgReach(enc)
	nEff := 0
	for f := range reach {
		allInstrs(f, func(i ssa.Instruction) {
			if cc := callCommonOf(i); cc != nil {
				k := calleeKey(cc)
				if isNondeterministic(k) {
					nEff++
					r.Bad("C10-R3", fmt.Sprintf("%s:nondeterministic(%s)", f.Name(), shortKey(k)), c.InstrPos(i), "a time/randomness/environment source is reachable from Encrypt: equal plaintexts may encrypt differently")
				}
			}
		})
	}
	if nEff == 0 {
		r.OK("C10-R3", "Encrypt:effect-scan", c.Pos(enc.Pos()), fmt.Sprintf("%d package functions reachable from Encrypt call no time/randomness/environment source", len(reach)))
	}
	keyG := c.GlobalByRole("encryptionKey")
	if keyG == nil {
		r.Undecided("C10-R3", "global:encryptionKey", "-", "key global not found")
	} else {
		var setter *ssa.Function
		okStores := true
		for _, f := range c.SortedFuncs() {
			allInstrs(f, func(i ssa.Instruction) {
				if st, ok := i.(*ssa.Store); ok && st.Addr == ssa.Value(keyG) {
					if f.Name() == "init" {
						return
					}
					if len(f.Params) == 1 && st.Val == ssa.Value(f.Params[0]) && len(f.Blocks) == 1 {
						setter = f
					} else {
						okStores = false
						r.Bad("C10-R3", fmt.Sprintf("%s:stores-key-global", f.Name()), c.InstrPos(i), "the key global is modified outside its setter")
					}
				}
			})
		}
		if okStores {
			r.OK("C10-R3", "global:encryptionKey:stores", c.Pos(keyG.Pos()), "stored only by its one-line setter")
		}
		if setter != nil {
			lineFns := c.pkgReach(c.Fn("RedactMongoLog"), c.Fn("MarshalOrdered"), an.StreamFn)
			for _, call := range c.callersOf(setter) {
				f := call.Parent()
				r.Check(f == an.RedactClosure && !lineFns[f], "C10-R3", fmt.Sprintf("%s:calls(%s)", f.Name(), setter.Name()), c.InstrPos(call), "key installed by the redact command only, outside per-line code", "the key is (re)installed outside the redact command's setup: ciphertexts are not comparable across lines/files")
			}
		} else {
			r.Bad("C10-R3", "global:encryptionKey:setter", c.Pos(keyG.Pos()), "no setter stores the key global")
		}
	}

	// ---- R4 encrypt mode implies a validated key before processing
	r.Floor("C10-R4", 1, "one SetShouldEncrypt site")
	cl := an.RedactClosure
	procKeys := c.processingCallKeys()
	setKey := c.pkgFn("SetEncryptionKey")
	genKey, readKey := c.pkgFn("GenerateKey"), c.pkgFn("ReadKeyFromFile")
	for _, se := range callsIn(cl, func(k string, _ *ssa.Call) bool { return k == c.pkgFn("SetShouldEncrypt") }) {
		q := &pathQuery{
			witness: func(i ssa.Instruction) bool {
				if nonZeroExit(i) {
					return true
				}
				call, ok := i.(*ssa.Call)
				if !ok || calleeKey(&call.Call) != setKey {
					return false
				}
				// argument provenance: result #0 of generator / reader with err==nil established,
				// for every definition the argument can have at this call
				srcs := sourcesAt(call.Call.Args[0], call.Block())
				for _, vs := range srcs {
					ex, ok := peel(vs.Val).(*ssa.Extract)
					if !ok || ex.Index != 0 {
						return false
					}
					src, ok := ex.Tuple.(*ssa.Call)
					if !ok {
						return false
					}
					k := calleeKey(&src.Call)
					if k != genKey && k != readKey {
						return false
					}
					_, isNil := factNil(allFacts(call.Block()), extractOf(src, 1))
					if !isNil {
						_, isNil = factNil(factsOnEdge(vs.At, vs.To), extractOf(src, 1))
					}
					if !isNil {
						return false
					}
				}
				return len(srcs) > 0
			},
			isEnd: func(i ssa.Instruction) (string, bool) {
				if call, ok := i.(*ssa.Call); ok && procKeys[calleeKey(&call.Call)] {
					return "processing:" + shortKey(calleeKey(&call.Call)), true
				}
				return "", false
			},
		}
		ends := q.run(se.Block(), instrIndex(se)+1, false)
		var where []string
		for _, e := range ends {
			where = append(where, e.Kind+"@"+c.InstrPos(e.Instr))
		}
		r.Check(len(ends) == 0, "C10-R4", cl.Name()+":encrypt-mode-implies-key", c.InstrPos(se), "every path from SetShouldEncrypt to a processing call installs a generated or validated key (err==nil) or exits non-zero", fmt.Sprintf("processing reachable in encrypt mode without a validated key being installed: %v", where))
	}
	keyFunctionsErrorDiscipline(c, r, "C10-R4")
	// fail-closed in the command too: a key that could not be generated, stored or read ends the
	// run (a warning instead leaves ciphertexts under a key that exists nowhere: later runs with
	// the same key file encrypt equal values differently, nothing can be decrypted)
	{
		keyFns := map[string]bool{c.pkgFn("GenerateKey"): true, c.pkgFn("WriteKeyToFile"): true, c.pkgFn("ReadKeyFromFile"): true}
		for _, call := range callsIn(cl, func(k string, _ *ssa.Call) bool { return keyFns[k] }) {
			construct := fmt.Sprintf("%s:key-error(%s)", cl.Name(), shortKey(calleeKey(&call.Call)))
			okh, detail := checkCallErrHandled(call, false, nil)
			r.Check(okh, "C10-R4", construct, c.InstrPos(call), detail, "a key error does not stop the run: "+detail)
		}
	}
	if rk := c.Fn("ReadKeyFromFile"); rk != nil {
		keyReaderShapeRule(c, r, rk, "C10-R4")
	}
	encryptHonouredRule(c, r, an, "C10-R5")
}

// encryptHonouredRule (C10-R5 / C16-R6): the test of the --encrypt flag that guards the
// mode switch dominates every record-producing call of the redact command, so that no
// input channel (file, stdin, Atlas files) silently ignores the flag.
func encryptHonouredRule(c *Ctx, r *Report, an *Anchors, rule string) {
	cl := an.RedactClosure
	r.Floor(rule, 2, "record-producing calls of the redact command (3 today)")
	var tests []*ssa.If
	for _, se := range callsIn(cl, func(k string, _ *ssa.Call) bool { return k == c.pkgFn("SetShouldEncrypt") }) {
		for _, f := range allFacts(se.Block()) {
			if name, ok := an.flagOfValue(cl, f.Cond); ok && name == "encrypt" && f.Pol && f.If != nil {
				tests = append(tests, f.If)
			}
		}
	}
	if len(tests) == 0 {
		r.Bad(rule, cl.Name()+":encrypt-test", c.Pos(cl.Pos()), "no test of the --encrypt flag guards a call of the mode switch: the flag has no effect")
		return
	}
	// the mode switch depends on the --encrypt flag and the key-file path only
	for _, se := range callsIn(cl, func(k string, _ *ssa.Call) bool { return k == c.pkgFn("SetShouldEncrypt") }) {
		var extra []string
		for _, f := range allFacts(se.Block()) {
			if ph, ok := f.Cond.(*ssa.Phi); ok && len(phiDisjunction(ph, f.Pol)) >= 1 {
				continue
			}
			if name, ok := an.flagOfValue(cl, f.Cond); ok && name == "encrypt" && f.Pol {
				continue
			}
			// a validation: the other way out of this test ends the run with a failure status
			// on every path (the job is refused, nothing is silently ignored)
			if f.If != nil && len(f.If.Block().Succs) == 2 {
				other := f.If.Block().Succs[0]
				if f.Pol {
					other = f.If.Block().Succs[1]
				}
				if len(other.Preds) == 1 && len(failsLoudly(other, false, nil)) == 0 {
					continue
				}
			}
			if bo, ok := f.Cond.(*ssa.BinOp); ok && (bo.Op == token.NEQ || bo.Op == token.EQL) {
				okFlag := false
				for _, pair := range [][2]ssa.Value{{bo.X, bo.Y}, {bo.Y, bo.X}} {
					if isEmptyStringConst(pair[1]) {
						if name, ok := an.flagOfValue(cl, pair[0]); ok && name == "encryptionKeyFile" && (bo.Op == token.NEQ) == f.Pol {
							okFlag = true
						}
					}
				}
				if okFlag {
					continue
				}
			}
			extra = append(extra, describeCond(f.Cond))
		}
		r.Check(len(extra) == 0, rule, cl.Name()+":encrypt-switch-guard", c.InstrPos(se),
			"encrypt mode is switched on whenever --encrypt is given with a key-file path, independently of the input channel",
			fmt.Sprintf("the encrypt-mode switch additionally depends on %v: under that condition --encrypt is accepted and silently ignored", extra))
	}
	// --encrypt without a key location is refused, not silently served in placeholder mode
	{
		rejected := false
		for _, b := range cl.Blocks {
			encTrue, keyEmpty := false, false
			for _, f := range allFacts(b) {
				if name, ok := an.flagOfValue(cl, f.Cond); ok && name == "encrypt" && f.Pol {
					encTrue = true
				}
				if bo, ok := f.Cond.(*ssa.BinOp); ok && (bo.Op == token.EQL || bo.Op == token.NEQ) {
					for _, pair := range [][2]ssa.Value{{bo.X, bo.Y}, {bo.Y, bo.X}} {
						if isEmptyStringConst(pair[1]) {
							if name, ok := an.flagOfValue(cl, pair[0]); ok && name == "encryptionKeyFile" && (bo.Op == token.EQL) == f.Pol {
								keyEmpty = true
							}
						}
					}
				}
			}
			if encTrue && keyEmpty && len(failsLoudly(b, false, nil)) == 0 {
				rejected = true
			}
		}
		r.Check(rejected, rule, cl.Name()+":encrypt-without-key-path-refused", c.Pos(cl.Pos()),
			"--encrypt with an empty key-file path ends in a non-zero exit: encryption is never silently replaced by irreversible placeholders",
			"--encrypt with an empty --encryptionKeyFile is accepted and runs in placeholder mode: the user asked for reversible output and gets output nothing can decrypt, with exit status 0")
	}
	streamCallers := map[string]bool{}
	if an.StreamFn != nil {
		for _, call := range c.callersOf(an.StreamFn) {
			streamCallers[fnFullName(call.Parent())] = true
		}
	}
	if len(streamCallers) == 0 {
		// the scan loop is not recognisable: fall back to the exported channel functions
		streamCallers[c.pkgFn("ProcessMongoLogFile")] = true
		streamCallers[c.pkgFn("ProcessMongoLogFileFromReader")] = true
	}
	for _, call := range callsIn(cl, func(k string, _ *ssa.Call) bool { return streamCallers[k] }) {
		dom := false
		for _, t := range tests {
			if t.Block().Dominates(call.Block()) {
				dom = true
			}
		}
		r.Check(dom, rule, fmt.Sprintf("%s:encrypt-test-before(%s)", cl.Name(), shortKey(calleeKey(&call.Call))), c.InstrPos(call),
			"every path to this record-producing call has evaluated the --encrypt switch: the channel redacts under the active flags",
			"this record-producing call can be reached without the --encrypt switch ever being evaluated: on this input channel the flag is accepted and silently ignored")
	}
}

// placeholderName labels the second argument of the choke point (constant / global).
func placeholderName(v ssa.Value) string {
	if s, ok := constString(v); ok {
		return fmt.Sprintf("%q", s)
	}
	if u, ok := v.(*ssa.UnOp); ok {
		if g, ok := u.X.(*ssa.Global); ok {
			return g.Name()
		}
	}
	return "value"
}

func valueLabel(v ssa.Value) string {
	if s, ok := constString(v); ok {
		return fmt.Sprintf("%q", s)
	}
	switch x := v.(type) {
	case *ssa.Call:
		return "call " + shortKey(calleeKey(&x.Call)) + "(" + placeholderNameArgs(x) + ")"
	case *ssa.UnOp:
		if g, ok := x.X.(*ssa.Global); ok {
			return "global " + g.Name()
		}
	case *ssa.Parameter:
		return "param " + x.Name()
	}
	return typeName(v.Type())
}

func placeholderNameArgs(c *ssa.Call) string {
	if len(c.Call.Args) >= 2 {
		return placeholderName(c.Call.Args[1])
	}
	return ""
}

// describeFacts renders guard facts compactly and stably (no SSA register names).
func describeFacts(c *Ctx, fs []Fact) string {
	var parts []string
	seen := map[string]bool{}
	for _, f := range fs {
		s := describeCond(f.Cond)
		if s == "" {
			continue
		}
		if !f.Pol {
			s = "!" + s
		}
		if !seen[s] {
			seen[s] = true
			parts = append(parts, s)
		}
	}
	return strings.Join(parts, "&")
}

func describeCond(v ssa.Value) string {
	switch x := v.(type) {
	case *ssa.UnOp:
		if g, ok := x.X.(*ssa.Global); ok {
			return g.Name()
		}
		if x.Op.String() == "!" {
			return "" // expanded separately
		}
	case *ssa.BinOp:
		l, rr := describeOperand(x.X), describeOperand(x.Y)
		return l + x.Op.String() + rr
	case *ssa.Parameter:
		return x.Name()
	case *ssa.Call:
		return shortKey(calleeKey(&x.Call)) + "()"
	case *ssa.Extract:
		if ta, ok := x.Tuple.(*ssa.TypeAssert); ok {
			return "is(" + typeName(ta.AssertedType) + ")"
		}
		if call, ok := x.Tuple.(*ssa.Call); ok {
			return fmt.Sprintf("%s#%d", shortKey(calleeKey(&call.Call)), x.Index)
		}
	case *ssa.Phi:
		return "phi"
	}
	return ""
}

func describeOperand(v ssa.Value) string {
	v = peel(v)
	if cst, ok := v.(*ssa.Const); ok {
		if cst.Value == nil {
			return "nil"
		}
		return cst.Value.String()
	}
	switch x := v.(type) {
	case *ssa.UnOp:
		if g, ok := x.X.(*ssa.Global); ok {
			return g.Name()
		}
		if fv, ok := x.X.(*ssa.FreeVar); ok {
			return fv.Name()
		}
	case *ssa.Parameter:
		return x.Name()
	case *ssa.Extract:
		if call, ok := x.Tuple.(*ssa.Call); ok {
			return fmt.Sprintf("%s#%d", shortKey(calleeKey(&call.Call)), x.Index)
		}
		if ta, ok := x.Tuple.(*ssa.TypeAssert); ok {
			return "as(" + typeName(ta.AssertedType) + ")"
		}
	case *ssa.Call:
		return shortKey(calleeKey(&x.Call)) + "()"
	}
	return "_"
}

// keysetConstantsRule: the keyset built around the raw key is a pure function of the key:
// key id and primary key id are constants, the output prefix type is the constant RAW
// (a TINK/LEGACY prefix would prepend the key id to every ciphertext), the key material is
// the function's parameter as a whole, and no other field is computed from anything but
// constants and the parameter.
func keysetConstantsRule(c *Ctx, r *Report, enc *ssa.Function, rule string) {
	var kf *ssa.Function
	for f := range c.pkgReach(enc) {
		if f == enc {
			continue
		}
		res := f.Signature.Results()
		if res.Len() >= 1 && strings.HasSuffix(res.At(0).Type().String(), "keyset.Handle") {
			kf = f
		}
	}
	if kf == nil {
		r.Undecided(rule, "keyset-builder", "-", "no package function reachable from Encrypt returns a *keyset.Handle")
		return
	}
	var bad []string
	seenFields := map[string]bool{}
	allInstrs(kf, func(i ssa.Instruction) {
		st, ok := i.(*ssa.Store)
		if !ok {
			return
		}
		fa, ok := st.Addr.(*ssa.FieldAddr)
		if !ok {
			return
		}
		_, fv := fieldOf(fa)
		if fv == nil {
			return
		}
		name := fv.Name()
		v := st.Val
		for {
			if cv, ok := v.(*ssa.Convert); ok {
				v = cv.X
				continue
			}
			if ct, ok := v.(*ssa.ChangeType); ok {
				v = ct.X
				continue
			}
			break
		}
		switch name {
		case "KeyId", "PrimaryKeyId", "Version":
			seenFields[name] = true
			if _, isC := v.(*ssa.Const); !isC {
				bad = append(bad, name+" is not a constant ("+c.InstrPos(i)+"): ciphertexts or key selection can differ between runs")
			}
		case "OutputPrefixType":
			seenFields[name] = true
			cst, isC := v.(*ssa.Const)
			okRaw := false
			if isC {
				if named, ok := fv.Type().(*types.Named); ok && named.Obj().Pkg() != nil {
					if o, ok := named.Obj().Pkg().Scope().Lookup("OutputPrefixType_RAW").(*types.Const); ok {
						if n, ok2 := constInt(cst); ok2 && o.Val().String() == fmt.Sprint(n) {
							okRaw = true
						}
					}
				}
			}
			if !okRaw {
				bad = append(bad, "OutputPrefixType is not the constant RAW ("+c.InstrPos(i)+"): a key-id prefix would be prepended to every ciphertext")
			}
		case "KeyValue":
			seenFields[name] = true
			if _, isP := v.(*ssa.Parameter); !isP {
				bad = append(bad, "KeyValue is not the raw-key parameter as a whole ("+c.InstrPos(i)+")")
			}
		}
	})
	for _, n := range []string{"KeyId", "PrimaryKeyId", "OutputPrefixType", "KeyValue"} {
		if !seenFields[n] {
			bad = append(bad, "field "+n+" is not set in "+kf.Name())
		}
	}
	sort.Strings(bad)
	r.Check(len(bad) == 0, rule, kf.Name()+":keyset-is-a-function-of-the-key", c.Pos(kf.Pos()),
		"key id, primary key id and version are constants, the output prefix type is RAW, the key material is the parameter itself: the primitive depends on the key alone",
		strings.Join(bad, "; "))
}

// valueDependsOn: src is among the (transitive) operands of v.
func valueDependsOn(v, src ssa.Value, depth int) bool {
	if v == src {
		return true
	}
	if depth > 8 {
		return false
	}
	in, ok := v.(ssa.Instruction)
	if !ok {
		return false
	}
	for _, op := range in.Operands(nil) {
		if *op != nil && valueDependsOn(*op, src, depth+1) {
			return true
		}
	}
	return false
}

// lineScope: the functions that can see log content - everything reachable from the file-level
// wrappers, the stream function and the per-line entry points.
func (c *Ctx) lineScope() map[*ssa.Function]bool {
	if c.lineScopeCache != nil {
		return c.lineScopeCache
	}
	an := c.anchors()
	roots := []*ssa.Function{c.Fn("RedactMongoLog"), c.Fn("MarshalOrdered"), c.Fn("UnmarshalOrdered"), c.Fn("ProcessMongoLogFile"), c.Fn("ProcessMongoLogFileFromReader")}
	if an != nil && an.StreamFn != nil {
		roots = append(roots, an.StreamFn)
	}
	c.lineScopeCache = c.pkgReach(roots...)
	return c.lineScopeCache
}
