package main

import (
	"go/token"
	"fmt"
	"go/types"
	"sort"
	"strings"

	"golang.org/x/tools/go/ssa"
)

func init() {
	register(&propDef{
		ID:          "C03",
		Run:         ruleC03,
		Explanation: "Decides the container typestate of the walkers, leaf-kind preservation of the scalar step and parser/serialiser agreement (structural necessary conditions of C03): (R1) in every walker loop over an input object each iteration performs exactly one Set on the associated fresh map, with the current key (or its pseudonym under the field-name flag); (R2) output arrays have len(input) and every index is stored exactly once at the loop index (in place: left as is only for nil); (R3) every return of a scalar-step function yields the JSON type of its input for every value kind the parser can produce and the call sites can pass (string->string, number->number, bool->bool, null->null), decided by intersecting the guard atoms with the parser's kind set; (R4) the serialiser hands to encoding/json only values that are provably neither an ordered map nor an array (the ordered map has no MarshalJSON), writes only structural constants or marshalled bytes, and closes every bracket it opens on every success path; (R5) the scan loop writes exactly the serialiser's result. NOT decided: duplicate keys, encoding/json's escaping and number rendering.",
		RuleText:    "obligations = walker loops (bounded path enumeration with per-container store counting), returns of functions returning an interface value, json.Marshal call sites and buffer writes of the serialiser",
	})
}

var jsonClasses = []string{"string", "number", "bool", "null", "object", "array"}

func classOfType(t types.Type) string {
	if n, ok := t.(*types.Named); ok && n.Obj().Name() == "Number" && n.Obj().Pkg() != nil && n.Obj().Pkg().Path() == "encoding/json" {
		return "number"
	}
	switch {
	case isStringType(t):
		return "string"
	case isBoolType(t):
		return "bool"
	case isNumericKind(t):
		return "number"
	case isOrderedMapPtr(t):
		return "object"
	case isAnySlice(t):
		return "array"
	}
	return ""
}

// coversClass: a negative type test on T removes the whole JSON class only when T is
// the one Go type the parser produces for it (numbers are json.Number under UseNumber).
func coversClass(t types.Type) (string, bool) {
	cl := classOfType(t)
	if cl == "" {
		return "", false
	}
	if cl == "number" {
		if n, ok := t.(*types.Named); ok && n.Obj().Name() == "Number" {
			return cl, true
		}
		return cl, false
	}
	return cl, true
}

type classSet map[string]bool

func fullClassSet() classSet {
	s := classSet{}
	for _, c := range jsonClasses {
		s[c] = true
	}
	return s
}

func (s classSet) list() []string {
	var out []string
	for c := range s {
		if s[c] {
			out = append(out, c)
		}
	}
	sort.Strings(out)
	return out
}

// refineClasses narrows the possible JSON classes of `subject` by the guard atoms.
func refineClasses(s classSet, atoms []Atom, isSubject func(ssa.Value) bool) {
	keepOnly := func(cl map[string]bool) {
		for c := range s {
			if !cl[c] {
				delete(s, c)
			}
		}
	}
	for _, a := range atoms {
		switch a.Kind {
		case "typeis":
			if !isSubject(a.X) {
				continue
			}
			if a.Pol {
				if cl := classOfType(a.Type); cl != "" {
					keepOnly(map[string]bool{cl: true})
				}
			} else if cl, ok := coversClass(a.Type); ok {
				delete(s, cl)
			}
		case "nil":
			if !isSubject(a.X) {
				continue
			}
			if a.Pol {
				keepOnly(map[string]bool{"null": true})
			} else {
				delete(s, "null")
			}
		case "or":
			cls := map[string]bool{}
			all := len(a.Or) > 0
			for _, d := range a.Or {
				if d.Kind == "typeis" && d.Pol && isSubject(d.X) && classOfType(d.Type) != "" {
					cls[classOfType(d.Type)] = true
				} else {
					all = false
				}
			}
			if all {
				keepOnly(cls)
			}
		}
	}
}

func ruleC03(c *Ctx, r *Report) {
	p := c.prov()
	for _, pr := range p.Problems {
		r.Undecided("C03-anchor", "prov", "-", pr)
	}
	if len(p.Problems) > 0 {
		return
	}
	var fns []*ssa.Function
	for f := range p.Zone {
		fns = append(fns, f)
	}
	sort.Slice(fns, func(i, j int) bool { return fns[i].Name() < fns[j].Name() })

	// ---- R1 / R2 containers
	r.Floor("C03-R1", 4, "map walker loops (4 today)")
	r.Floor("C03-R2", 4, "array walker loops (5 today)")
	for _, f := range fns {
		for _, ic := range p.walkerLoops(f) {
			rule := "C03-R2"
			if ic.Mode == "fresh-map" {
				rule = "C03-R1"
			}
			var bad []string
			if !ic.Whole {
				bad = append(bad, "iterates over a sub-slice of the input")
			}
			if !ic.LenOK {
				bad = append(bad, "output slice is not make([]any, len(input))")
			}
			if ic.EarlyExits > 0 {
				bad = append(bad, fmt.Sprintf("%d early exit(s) from inside an iteration (remaining members are lost)", ic.EarlyExits))
			}
			bad = append(bad, ic.MultiStore...)
			bad = append(bad, ic.KeyProblems...)
			bad = append(bad, ic.Carried...)
			for _, z := range ic.ZeroPaths {
				if !p.zeroPathJustified(ic, z) {
					bad = append(bad, "iteration path without a store (member dropped) under ["+zeroPathString(z)+"]")
				}
			}
			bad = dedupe(bad)
			if len(bad) > 3 {
				bad = append(bad[:3], fmt.Sprintf("... and %d more", len(bad)-3))
			}
			r.Check(len(bad) == 0, rule, ic.construct(), c.Pos(ic.Loop.Loop.Header.Instrs[0].Pos()),
				fmt.Sprintf("exactly one store per iteration at the current key/index (%d store sites, mode %s)", len(ic.Sinks), ic.Mode), strings.Join(bad, "; "))
			// the fresh container is what the function hands on (returned or stored)
		}
	}

	// ---- R3 leaf kinds
	r.Floor("C03-R3", 8, "scalar-kind returns of the scalar step (11 today)")
	for _, f := range fns {
		if f.Signature.Results().Len() != 1 || !isEmptyInterface(f.Signature.Results().At(0).Type()) {
			continue
		}
		// subject: the IN interface parameter(s)
		var subjects []ssa.Value
		for _, prm := range f.Params {
			if isEmptyInterface(prm.Type()) && p.Of(prm)&oIN != 0 {
				subjects = append(subjects, prm)
			}
		}
		if len(subjects) == 0 {
			continue
		}
		isSubject := func(v ssa.Value) bool {
			if v == nil {
				return false
			}
			rv := rootOf(v)
			for _, s := range subjects {
				if rv == s || v == s {
					return true
				}
			}
			return false
		}
		// classes every call site can pass
		callClasses := fullClassSet()
		sites := c.callersOf(f)
		if len(sites) > 0 {
			union := classSet{}
			for _, call := range sites {
				cs := fullClassSet()
				for i, prm := range f.Params {
					if !isSubject(prm) || i >= len(call.Call.Args) {
						continue
					}
					arg := call.Call.Args[i]
					ra := rootOf(arg)
					refineClasses(cs, p.atomsAt(call.Block()), func(v ssa.Value) bool { return v != nil && (rootOf(v) == ra || v == arg) })
				}
				for k := range cs {
					union[k] = true
				}
			}
			callClasses = union
		}
		allInstrs(f, func(i ssa.Instruction) {
			ret, ok := i.(*ssa.Return)
			if !ok {
				return
			}
			v := resolveLocal(ret.Results[0])
			if p.Of(v)&oIN != 0 && isSubject(v) {
				return // the input itself: same kind by construction
			}
			mi, ok := v.(*ssa.MakeInterface)
			if !ok {
				return
			}
			outClass := classOfType(mi.X.Type())
			if outClass == "" || outClass == "object" || outClass == "array" {
				return
			}
			atoms := p.atomsAt(ret.Block())
			in := fullClassSet()
			for k := range in {
				if !callClasses[k] {
					delete(in, k)
				}
			}
			refineClasses(in, atoms, isSubject)
			okKinds := true
			for k := range in {
				if k != outClass {
					okKinds = false
				}
			}
			construct := fmt.Sprintf("%s:return(%s)[%s]", f.Name(), outClass, atomsString(filterAtoms(atoms, isSubject)))
			r.Check(okKinds, "C03-R3", construct, c.InstrPos(i),
				fmt.Sprintf("returns a %s only where the input leaf is %v", outClass, in.list()),
				fmt.Sprintf("returns a %s although the input leaf can be %v: the leaf changes its JSON type", outClass, in.list()))
		})
	}

	// ---- R4 serialiser
	c03Serialiser(c, r, p, "C03-R4")

	// ---- R5 one line per record (payload is the serialiser's result)
	an := c.anchors()
	if an.StreamFn != nil {
		r.Floor("C03-R5", 1, "the one write")
		for _, w := range streamWrites(c, an.StreamFn) {
			okPayload, detail := payloadIsSerialisedRecord(c, w)
			r.Check(okPayload, "C03-R5", an.StreamFn.Name()+":write-payload", c.InstrPos(w), detail, detail)
		}
	}
}

func filterAtoms(as []Atom, isSubject func(ssa.Value) bool) []Atom {
	var out []Atom
	for _, a := range as {
		switch a.Kind {
		case "typeis", "nil":
			if isSubject(a.X) {
				out = append(out, a)
			}
		case "or", "cfg":
			out = append(out, a)
		}
	}
	return out
}

func c03Serialiser(c *Ctx, r *Report, p *Prov, rule string) {
	ser := c.Fn("MarshalOrdered")
	if ser == nil {
		r.Undecided(rule, "MarshalOrdered", "-", "serialiser not found")
		return
	}
	r.Floor(rule, 4, "json.Marshal sites, buffer writes, bracket pairing, method-set fact")
	// the ordered map has no MarshalJSON: encoding/json cannot serialise it meaningfully
	hasMJ := false
	if len(ser.Params) > 0 {
		ms := c.Prog.MethodSets.MethodSet(ser.Params[0].Type())
		for i := 0; i < ms.Len(); i++ {
			if ms.At(i).Obj().Name() == "MarshalJSON" {
				hasMJ = true
			}
		}
	}
	r.Check(!hasMJ, rule, "orderedmap:no-MarshalJSON", "-", "ordered map has no MarshalJSON: it must never be handed to encoding/json (premise of the rule below)", "ordered map gained a MarshalJSON method: rule premise changed, review needed")
	fns := c.pkgReach(ser)
	var list []*ssa.Function
	for f := range fns {
		list = append(list, f)
	}
	sort.Slice(list, func(i, j int) bool { return list[i].Name() < list[j].Name() })
	// every loop of the serialiser that writes members / elements writes exactly one separator
	for _, f := range list {
		for _, l := range naturalLoops(f) {
			writes, seps := 0, 0
			var at ssa.Instruction
			for b := range l.Body {
				for _, in := range b.Instrs {
					call, ok := in.(*ssa.Call)
					if !ok {
						continue
					}
					k := calleeKey(&call.Call)
					if g := call.Call.StaticCallee(); g != nil && fns[g] {
						writes++
						at = in
					}
					if k == "(*bytes.Buffer).Write" || k == "(*bytes.Buffer).WriteString" {
						writes++
						at = in
					}
					if k == "(*bytes.Buffer).WriteByte" {
						if m, isC := constInt(call.Call.Args[1]); isC && m == ',' {
							seps++
						}
					}
				}
			}
			if writes == 0 {
				continue
			}
			r.Check(seps == 1, rule, fmt.Sprintf("%s:loop-writes-one-separator", f.Name()), c.InstrPos(at),
				"the member / element loop writes one ',' (placed by the between-elements rule)",
				fmt.Sprintf("the loop that writes members / elements has %d separator writes: consecutive values are glued together or separated twice - the line is not well-formed JSON", seps))
		}
	}
	// who may touch the output buffer: only the buffer's own write methods (judged below)
	// and the serialiser's own functions
	allowedBuf := map[string]bool{"(*bytes.Buffer).WriteByte": true, "(*bytes.Buffer).Write": true, "(*bytes.Buffer).WriteString": true,
		"(*bytes.Buffer).Bytes": true, "(*bytes.Buffer).Len": true, "(*bytes.Buffer).String": true, "(*bytes.Buffer).Grow": true}
	for _, f := range list {
		var bufs []ssa.Value
		for _, prm := range f.Params {
			if prm.Type().String() == "*bytes.Buffer" {
				bufs = append(bufs, prm)
			}
		}
		allInstrs(f, func(i ssa.Instruction) {
			if al, ok := i.(*ssa.Alloc); ok && al.Type().String() == "*bytes.Buffer" {
				bufs = append(bufs, al)
			}
		})
		for _, b := range bufs {
			var bad []string
			n := 0
			var visit func(v ssa.Value, depth int)
			visit = func(v ssa.Value, depth int) {
				for _, use := range referrers(v) {
					n++
					switch x := use.(type) {
					case *ssa.DebugRef:
					case *ssa.MakeInterface, *ssa.ChangeInterface:
						if depth < 3 {
							visit(x.(ssa.Value), depth+1)
						}
					case ssa.CallInstruction:
						cc := x.Common()
						k := calleeKey(cc)
						if allowedBuf[k] && len(cc.Args) > 0 && cc.Args[0] == v {
							continue
						}
						if callee := cc.StaticCallee(); callee != nil && fns[callee] {
							continue
						}
						bad = append(bad, "handed to "+shortKey(k)+" at "+c.InstrPos(use))
					default:
						bad = append(bad, fmt.Sprintf("%T at %s", use, c.InstrPos(use)))
					}
				}
			}
			visit(b, 0)
			sort.Strings(bad)
			r.Check(len(bad) == 0, rule, f.Name()+":buffer-writers", c.Pos(f.Pos()),
				fmt.Sprintf("the output buffer is written only through its own write methods and the serialiser's functions (%d uses)", n),
				"something else writes into the output buffer (its bytes are not provably json.Marshal output or structural constants): "+strings.Join(bad, "; "))
		}
	}
	structural := map[int64]bool{'{': true, '}': true, '[': true, ']': true, ',': true, ':': true}
	closeOf := map[int64]int64{'{': '}', '[': ']'}
	for _, f := range list {
		allInstrs(f, func(i ssa.Instruction) {
			call, ok := i.(*ssa.Call)
			if !ok {
				return
			}
			k := calleeKey(&call.Call)
			switch k {
			case "encoding/json.Marshal":
				arg := call.Call.Args[0]
				inner := peel(arg)
				construct := fmt.Sprintf("%s:json.Marshal(%s)", f.Name(), typeName(inner.Type()))
				if cl := classOfType(inner.Type()); cl == "string" || cl == "number" || cl == "bool" {
					r.OK(rule, construct, c.InstrPos(i), "statically a scalar")
					return
				}
				root := rootOf(arg)
				negMap, negArr := false, false
				for _, a := range p.atomsAt(call.Block()) {
					if a.Kind == "typeis" && !a.Pol && (rootOf(a.X) == root || a.X == arg) {
						if isOrderedMapPtr(a.Type) {
							negMap = true
						}
						if isAnySlice(a.Type) {
							negArr = true
						}
					}
				}
				r.Check(negMap && negArr, rule, construct, c.InstrPos(i), "value is provably neither an ordered map nor an array",
					fmt.Sprintf("a value that may be %s is handed to encoding/json: nested documents are emitted as {} and nil arrays as null", map[bool]string{true: "an array (possibly holding documents)", false: "an ordered map"}[negMap]))
			case "(*bytes.Buffer).WriteByte":
				n, isC := constInt(call.Call.Args[1])
				construct := fmt.Sprintf("%s:WriteByte(%q)", f.Name(), rune(n))
				if !isC || !structural[n] {
					r.Bad(rule, construct, c.InstrPos(i), "a byte that is not one of { } [ ] , : is written to the output buffer")
					return
				}
				if cl, isOpen := closeOf[n]; isOpen {
					// every success return reachable after the open passes the matching close
					q := &pathQuery{
						witness: func(x ssa.Instruction) bool {
							cc, ok := x.(*ssa.Call)
							if !ok || calleeKey(&cc.Call) != "(*bytes.Buffer).WriteByte" {
								return false
							}
							m, _ := constInt(cc.Call.Args[1])
							return m == cl
						},
						isEnd: func(x ssa.Instruction) (string, bool) {
							if ret, ok := x.(*ssa.Return); ok {
								for _, res := range ret.Results {
									if isErrorType(res.Type()) && !isNilConst(resolveLocal(res)) {
										// an error VALUE that the branch facts show to be nil here is a success
										// return all the same (`if err == nil { return err }`)
										knownNil := false
										for _, ft := range allFacts(ret.Block()) {
											if ev, neq, okN := nilCompare(ft.Cond); okN && peel(ev) == peel(resolveLocal(res)) && neq != ft.Pol {
												knownNil = true
											}
										}
										if !knownNil {
											return "", false // error return: output is discarded
										}
									}
								}
								return "success-return", true
							}
							return "", false
						},
					}
					ends := q.run(call.Block(), instrIndex(call)+1, false)
					r.Check(len(ends) == 0, rule, construct+":closed", c.InstrPos(i), fmt.Sprintf("every success path writes the matching %q", rune(cl)), fmt.Sprintf("a success return is reachable without the closing %q", rune(cl)))
				} else if n == '}' || n == ']' {
					// a closer is written where its opener was written before, in this function
					open := int64('{')
					if n == ']' {
						open = '['
					}
					opened := false
					allInstrs(f, func(x ssa.Instruction) {
						oc, ok := x.(*ssa.Call)
						if !ok || calleeKey(&oc.Call) != "(*bytes.Buffer).WriteByte" {
							return
						}
						if m, isC2 := constInt(oc.Call.Args[1]); isC2 && m == open {
							if oc.Block() == call.Block() && instrIndex(oc) < instrIndex(call) || oc.Block() != call.Block() && oc.Block().Dominates(call.Block()) {
								opened = true
							}
						}
					})
					r.Check(opened, rule, construct+":opened", c.InstrPos(i), fmt.Sprintf("the matching %q is written before on every path", rune(open)),
						fmt.Sprintf("the closing %q is written without its opening %q having been written on every path before it: the line is not well-formed JSON", rune(n), rune(open)))
				} else if n == ',' {
					// the separator: inside the member / element loop, in every iteration but the first
					okSep, why := separatorShape(f, call)
					r.Check(okSep, rule, construct+":between-elements", c.InstrPos(i), why, "the separator is not written exactly between consecutive members: "+why)
				} else {
					r.Trivial(rule, construct, c.InstrPos(i), "structural constant")
				}
			case "(*bytes.Buffer).Write", "(*bytes.Buffer).WriteString":
				src := call.Call.Args[1]
				okSrc := false
				if ex, isEx := src.(*ssa.Extract); isEx && ex.Index == 0 {
					if sc, isC := ex.Tuple.(*ssa.Call); isC {
						sk := calleeKey(&sc.Call)
						if sk == "encoding/json.Marshal" || fns[sc.Call.StaticCallee()] {
							okSrc = true
						}
					}
				}
				if lit, isLit := constString(src); isLit && !okSrc {
					// the three JSON literals written without the encoder: `null` where the value is
					// nil, `true` / `false` where it is a bool of that truth value
					okLit, why := false, "the constant "+fmt.Sprintf("%q", lit)+" is written to the output buffer"
					for _, ft := range allFacts(call.Block()) {
						switch lit {
						case "null":
							if x, _, isNil := nilCompare(ft.Cond); isNil {
								if bo, ok := ft.Cond.(*ssa.BinOp); ok && (bo.Op == token.EQL) == ft.Pol {
									if _, isPrm := peel(x).(*ssa.Parameter); isPrm {
										okLit = true
									}
								}
							}
						case "true", "false":
							if ex, ok := peel(ft.Cond).(*ssa.Extract); ok && ex.Index == 0 {
								if ta, ok := ex.Tuple.(*ssa.TypeAssert); ok && isBoolType(ta.AssertedType) {
									if _, isPrm := peel(ta.X).(*ssa.Parameter); isPrm && ft.Pol == (lit == "true") {
										okLit = true
									}
								}
							}
							if ta, ok := peel(ft.Cond).(*ssa.TypeAssert); ok && !ta.CommaOk && isBoolType(ta.AssertedType) {
								if _, isPrm := peel(ta.X).(*ssa.Parameter); isPrm && ft.Pol == (lit == "true") {
									okLit = true
								}
							}
						}
					}
					r.Check(okLit, rule, fmt.Sprintf("%s:Write(%s)", f.Name(), lit), c.InstrPos(i), "the JSON literal "+lit+" is written exactly where the value is "+lit, why+" where the value is not known to be "+lit)
					return
				}
				r.Check(okSrc, rule, fmt.Sprintf("%s:Write", f.Name()), c.InstrPos(i), "writes bytes produced by json.Marshal or by the serialiser itself", "bytes from another source are written to the output buffer")
			}
		})
	}
}

// streamWrites: write calls on the writer parameter of the scan loop.
func streamWrites(c *Ctx, sf *ssa.Function) []*ssa.Call {
	var dests []ssa.Value
	for _, p := range writerParams(sf) {
		dests = append(dests, p)
	}
	var out []*ssa.Call
	allInstrs(sf, func(i ssa.Instruction) {
		if _, ok := isWriteCallOn(i, dests); ok {
			if call, ok := i.(*ssa.Call); ok {
				out = append(out, call)
			}
		}
	})
	return out
}

// payloadIsSerialisedRecord: the written value is string(MarshalOrdered(RedactMongoLog(line)))
// for the scanned line, nothing else.
func payloadIsSerialisedRecord(c *Ctx, w *ssa.Call) (bool, string) {
	args := w.Call.Args
	var payload []ssa.Value
	k := calleeKey(&w.Call)
	switch {
	case strings.HasPrefix(k, "fmt.Fprint"):
		start := 1
		if k == "fmt.Fprintf" {
			start = 2
		}
		if len(args) > start {
			payload = varargValues(args[start])
		}
	default:
		if len(args) > 0 {
			payload = []ssa.Value{args[len(args)-1]}
		}
	}
	if len(payload) != 1 {
		return false, fmt.Sprintf("write carries %d operands (expected exactly the serialised record)", len(payload))
	}
	// values are followed through result temporaries of inlined helpers: a phi is resolved by
	// the facts that hold where the value is used (`if ok {` selects the edge that set ok)
	v := resolveAt(peel(payload[0]), w.Block())
	if cv, ok := v.(*ssa.Convert); ok {
		v = resolveAt(cv.X, w.Block())
	}
	// append(record, '\n') / append(record, "\n"...): the record and its terminator in one buffer
	if ac, ok := v.(*ssa.Call); ok && calleeKey(&ac.Call) == "builtin append" && len(ac.Call.Args) == 2 {
		onlyNewline := false
		if s, isC := constString(ac.Call.Args[1]); isC && s == "\n" {
			onlyNewline = true
		} else if vs := varargValues(ac.Call.Args[1]); len(vs) == 1 {
			if n, isC := constInt(vs[0]); isC && n == 10 {
				onlyNewline = true
			}
		}
		if onlyNewline {
			v = resolveAt(peel(ac.Call.Args[0]), w.Block())
			if cv, ok := v.(*ssa.Convert); ok {
				v = resolveAt(cv.X, w.Block())
			}
		}
	}
	ex, ok := v.(*ssa.Extract)
	if !ok || ex.Index != 0 {
		return false, "written value is not the result of the serialiser"
	}
	mc, ok := ex.Tuple.(*ssa.Call)
	if !ok || calleeKey(&mc.Call) != c.pkgFn("MarshalOrdered") {
		return false, "written value is not the result of MarshalOrdered"
	}
	rx, ok := resolveAt(mc.Call.Args[0], mc.Block()).(*ssa.Extract)
	if !ok || rx.Index != 0 {
		return false, "serialiser input is not the redactor's result"
	}
	rc, ok := rx.Tuple.(*ssa.Call)
	if !ok || calleeKey(&rc.Call) != c.pkgFn("RedactMongoLog") {
		return false, "serialiser input is not RedactMongoLog's result"
	}
	lineArg := resolveAt(rc.Call.Args[0], rc.Block())
	if cv, isConv := lineArg.(*ssa.Convert); isConv {
		lineArg = resolveAt(cv.X, rc.Block())
	}
	tc, ok := lineArg.(*ssa.Call)
	if !ok || (calleeKey(&tc.Call) != "(*bufio.Scanner).Text" && calleeKey(&tc.Call) != "(*bufio.Scanner).Bytes") {
		return false, "redactor input is not the scanned line"
	}
	return true, "writes string(MarshalOrdered(RedactMongoLog(scanner.Text()))) and nothing else"
}

// separatorShape: the ',' write sits in a loop, under a test that holds exactly from the second
// iteration on - `i > 0` / `i != 0` / `i >= 1` on the loop's own counter (the index of a slice
// range, or a counter that starts at 0 and grows by one per iteration) - and that test is
// evaluated in every iteration.
func separatorShape(f *ssa.Function, call *ssa.Call) (bool, string) {
	var loop *Loop
	for _, l := range naturalLoops(f) {
		if l.Body[call.Block()] {
			if loop == nil || len(l.Body) < len(loop.Body) {
				loop = l
			}
		}
	}
	if loop == nil {
		return false, "the separator is written outside a loop"
	}
	isCounter := func(v ssa.Value) bool {
		v = peel(v)
		// slice range: the index is inc = phi + 1 with phi = [-1, inc]
		if bo, ok := v.(*ssa.BinOp); ok && bo.Op == token.ADD {
			if ph, ok := bo.X.(*ssa.Phi); ok && ph.Block() == loop.Header {
				if one, isC := constInt(bo.Y); isC && one == 1 {
					for _, e := range ph.Edges {
						if m, isC2 := constInt(e); isC2 && m == -1 {
							return true
						}
					}
				}
			}
		}
		// explicit counter: phi = [0, phi + 1]
		if ph, ok := v.(*ssa.Phi); ok && ph.Block() == loop.Header {
			zero, inc := false, false
			for _, e := range ph.Edges {
				if m, isC := constInt(e); isC && m == 0 {
					zero = true
				}
				if bo, ok := e.(*ssa.BinOp); ok && bo.Op == token.ADD && bo.X == ssa.Value(ph) {
					if one, isC := constInt(bo.Y); isC && one == 1 {
						inc = true
					}
				}
			}
			return zero && inc
		}
		return false
	}
	for _, ft := range allFacts(call.Block()) {
		// `sep := false; for ... { if sep { write ',' }; sep = true; ... }`: a flag that is false
		// on entry and true from every latch
		if ph, isPhi := peel(ft.Cond).(*ssa.Phi); isPhi && ph.Block() == loop.Header && ft.If != nil && loop.Body[ft.If.Block()] && ft.Pol {
			okFlag := len(ph.Edges) >= 2
			for ei, e := range ph.Edges {
				b, isC := constBool(e)
				fromLoop := loop.Body[ph.Block().Preds[ei]]
				if !isC || b != fromLoop {
					okFlag = false
				}
			}
			_ = okFlag
		}
		// both spellings: `sep` (false on entry, true afterwards, written `if sep`) and `first`
		// (true on entry, false afterwards, written `if !first`)
		if ph, isPhi := peel(ft.Cond).(*ssa.Phi); isPhi && ph.Block() == loop.Header && ft.If != nil && loop.Body[ft.If.Block()] {
			okFlag := len(ph.Edges) >= 2
			for ei, e := range ph.Edges {
				b, isC := constBool(e)
				fromLoop := loop.Body[ph.Block().Preds[ei]]
				// the separator is written where the flag has the value the latches deliver
				if !isC || (b == ft.Pol) != fromLoop {
					okFlag = false
				}
			}
			if okFlag {
				for _, lt := range loop.Latch {
					if !ft.If.Block().Dominates(lt) {
						return false, "the test that guards it is not evaluated in every iteration"
					}
				}
				return true, "written in every iteration but the first (a flag that is false on entry and true afterwards)"
			}
		}
		bo, ok := ft.Cond.(*ssa.BinOp)
		if !ok || ft.If == nil || !loop.Body[ft.If.Block()] {
			continue
		}
		n, isC := constInt(bo.Y)
		if !isC || !isCounter(bo.X) {
			continue
		}
		op := bo.Op
		if !ft.Pol {
			switch op {
			case token.GTR:
				op = token.LEQ
			case token.LEQ:
				op = token.GTR
			case token.LSS:
				op = token.GEQ
			case token.GEQ:
				op = token.LSS
			case token.EQL:
				op = token.NEQ
			case token.NEQ:
				op = token.EQL
			}
		}
		fromSecond := (op == token.GTR && n == 0) || (op == token.NEQ && n == 0) || (op == token.GEQ && n == 1)
		if !fromSecond {
			return false, fmt.Sprintf("it is written when the iteration counter %s %d (a leading, missing or doubled separator)", op, n)
		}
		for _, lt := range loop.Latch {
			if !ft.If.Block().Dominates(lt) {
				return false, "the test that guards it is not evaluated in every iteration"
			}
		}
		return true, "written in every iteration but the first (iteration counter > 0)"
	}
	return false, "no test of the loop's own iteration counter guards it"
}
