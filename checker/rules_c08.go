package main

import (
	"fmt"
	"go/token"
	"go/types"
	"strings"

	"golang.org/x/tools/go/ssa"
)

func init() {
	register(&propDef{
		ID:          "C08",
		Run:         ruleC08,
		Explanation: "Decides the error discipline of the data path (structural necessary conditions of C08): every write to the output writer has its error inspected and a failed write ends the stream function with a non-nil error before any further write; scanner/gzip/open errors are returned; the file-level wrappers propagate the stream error; every CLI call site maps a non-nil error to os.Exit(c!=0) on all paths; a record and its newline are written by one call; the failure branch of the record write cuts a partially transferred line off again (a call reaching (*os.File).Truncate receives the byte count). NOT decided: OS behaviour on ENOSPC/EPIPE, short-write semantics of *os.File, Close errors, that the prefix already written is byte-correct (library).",
		RuleText:    "obligations = write call sites on the writer parameter, scanner.Err/gzip.NewReader/Open error results, calls to the stream function and its wrappers, CLI call sites; each discharged by an SSA path query (every path from the err!=nil edge reaches a non-nil error return / non-zero exit, passing no further write)",
	})
}

// writerCalls finds calls in fn that write to a value derived from an io.Writer parameter.
func writerParams(fn *ssa.Function) []*ssa.Parameter {
	var ps []*ssa.Parameter
	for _, p := range fn.Params {
		if it, ok := p.Type().Underlying().(*types.Interface); ok {
			for i := 0; i < it.NumMethods(); i++ {
				if it.Method(i).Name() == "Write" {
					ps = append(ps, p)
				}
			}
		}
	}
	return ps
}

func isWriteCallOn(i ssa.Instruction, dests []ssa.Value) (string, bool) {
	cc := callCommonOf(i)
	if cc == nil {
		return "", false
	}
	k := calleeKey(cc)
	var dest ssa.Value
	switch {
	case strings.HasPrefix(k, "fmt.Fprint"), k == "io.WriteString", k == "io.Copy", k == "io.CopyN", k == "io.CopyBuffer":
		if len(cc.Args) > 0 {
			dest = cc.Args[0]
		}
	case strings.HasPrefix(k, "invoke ") && (strings.HasSuffix(k, ".Write") || strings.HasSuffix(k, ".WriteString")):
		dest = cc.Value
	case strings.HasPrefix(k, "(*os.File).Write"), strings.HasPrefix(k, "(*bufio.Writer).Write"), k == "(*bufio.Writer).Flush":
		if len(cc.Args) > 0 {
			dest = cc.Args[0]
		}
	default:
		return "", false
	}
	if dest == nil {
		return "", false
	}
	for _, d := range dests {
		if derivesFrom(dest, d, 0) {
			return k, true
		}
	}
	// a bufio.Writer wrapping the destination
	if c, ok := peel(dest).(*ssa.Call); ok && strings.HasPrefix(calleeKey(&c.Call), "bufio.NewWriter") {
		for _, d := range dests {
			if len(c.Call.Args) > 0 && derivesFrom(c.Call.Args[0], d, 0) {
				return k, true
			}
		}
	}
	return "", false
}

func ruleC08(c *Ctx, r *Report) {
	a := c.anchors()
	if !requireAnchors(r, a, "C08-anchor", "stream", "redact") {
		return
	}
	sf := a.StreamFn
	r.Analysed["stream_function"] = sf.Name()
	wps := writerParams(sf)
	if len(wps) == 0 {
		r.Undecided("C08-R1", sf.Name()+":writer-param", c.Pos(sf.Pos()), "stream function has no io.Writer parameter")
		return
	}
	var dests []ssa.Value
	for _, p := range wps {
		dests = append(dests, p)
	}
	isWrite := func(i ssa.Instruction) bool { _, ok := isWriteCallOn(i, dests); return ok }
	isScan := func(i ssa.Instruction) bool { return isCallTo(i, "(*bufio.Scanner).Scan") }

	// R1 + R4: every write is checked, fails closed, and writes a whole line
	r.Floor("C08-R1", 1, "one write to the output writer in the scan loop")
	nWrites := 0
	allInstrs(sf, func(i ssa.Instruction) {
		k, ok := isWriteCallOn(i, dests)
		if !ok {
			return
		}
		nWrites++
		construct := fmt.Sprintf("%s:write(%s->%s)", sf.Name(), k, wps[0].Name())
		call, isCall := i.(*ssa.Call)
		if !isCall {
			r.Bad("C08-R1", construct, c.InstrPos(i), "write performed by defer/go: its error cannot be inspected")
			return
		}
		okh, detail := checkCallErrHandled(call, true, func(x ssa.Instruction) bool { return isWrite(x) || isScan(x) })
		r.Check(okh, "C08-R1", construct, c.InstrPos(i), detail, "write error not reported: "+detail)
		// R4 whole line in one call
		whole, wd := writesWholeLine(k, call)
		if whole == "undecided" {
			r.Undecided("C08-R4", construct, c.InstrPos(i), wd)
		} else {
			r.Check(whole == "yes", "C08-R4", construct, c.InstrPos(i), wd, wd)
		}
		// R9 a write that fails half-way leaves no torn line behind
		ok9, d9 := failedWriteRollback(c, call)
		r.Check(ok9, "C08-R9", fmt.Sprintf("%s:failed-write-rollback(%s)", sf.Name(), k), c.InstrPos(i), d9,
			"a write that fails after part of the line was transferred (ENOSPC, EFBIG, quota) leaves a torn line at the end of the output file: "+d9)
	})
	r.Floor("C08-R9", 1, "one record write whose failure branch rolls a partial line back")
	r.Analysed["writes_to_output"] = nWrites

	// R2: scanner.Err() inspected; every nil-error return of the stream function is
	// dominated by Err()==nil
	r.Floor("C08-R2", 2, "scanner.Err + open/gzip errors")
	errCalls := callsIn(sf, func(k string, _ *ssa.Call) bool { return k == "(*bufio.Scanner).Err" })
	if len(errCalls) == 0 {
		r.Bad("C08-R2", sf.Name()+":scanner.Err", c.Pos(sf.Pos()), "scanner.Err() is never called: a read error / over-long line ends the loop silently")
	}
	allInstrs(sf, func(i ssa.Instruction) {
		ret, ok := i.(*ssa.Return)
		if !ok {
			return
		}
		for _, res := range ret.Results {
			if !isErrorType(res.Type()) {
				continue
			}
			if provablyNonNilErr(res, ret.Block(), 0) {
				continue
			}
			// direct return of scanner.Err()
			direct := false
			for _, ec := range errCalls {
				if derivesFrom(res, ec, 0) {
					direct = true
				}
			}
			construct := sf.Name() + ":return(success)"
			if direct {
				r.OK("C08-R2", construct, c.InstrPos(i), "returns scanner.Err() itself")
				continue
			}
			okDom := false
			for _, ec := range errCalls {
				_, isNil := factNil(allFacts(ret.Block()), ec)
				if isNil {
					okDom = true
				}
			}
			r.Check(okDom, "C08-R2", construct, c.InstrPos(i), "success return dominated by scanner.Err()==nil", "a success (nil error) return is reachable without scanner.Err()==nil having been established")
		}
	})
	// no early exit from the loop body other than returning an error (shared with C06/C07)
	// R2b: open / gzip errors in the file-level wrappers
	streamKey := fnFullName(sf)
	wrappers := []*ssa.Function{}
	for _, f := range c.SortedFuncs() {
		if f != sf && hasCallTo(f, streamKey) {
			wrappers = append(wrappers, f)
		}
	}
	wrapperKeys := []string{streamKey}
	for _, w := range wrappers {
		wrapperKeys = append(wrapperKeys, fnFullName(w))
	}
	for _, w := range wrappers {
		for _, call := range callsIn(w, func(k string, _ *ssa.Call) bool {
			return k == "compress/gzip.NewReader" || (strings.HasPrefix(k, "invoke ") && strings.HasSuffix(k, ".Open")) || k == "os.Open"
		}) {
			construct := fmt.Sprintf("%s:err(%s)", w.Name(), shortKey(calleeKey(&call.Call)))
			okh, detail := checkCallErrHandled(call, true, func(x ssa.Instruction) bool { return isCallTo(x, streamKey) })
			r.Check(okh, "C08-R2", construct, c.InstrPos(call), detail, "input error not reported: "+detail)
		}
	}

	// R3: wrappers propagate; CLI maps to non-zero exit
	r.Floor("C08-R3", 5, "3 calls of the stream function in wrappers + 3 CLI call sites (>=5 required)")
	for _, w := range wrappers {
		for _, call := range callsIn(w, func(k string, _ *ssa.Call) bool { return k == streamKey }) {
			construct := fmt.Sprintf("%s:propagate(%s)", w.Name(), sf.Name())
			okh, detail := checkCallErrHandled(call, true, nil)
			r.Check(okh, "C08-R3", construct, c.InstrPos(call), detail, "stream error dropped: "+detail)
		}
	}
	// all call sites of wrappers outside wrappers (CLI closures, main)
	isWrapperFn := map[*ssa.Function]bool{sf: true}
	for _, w := range wrappers {
		isWrapperFn[w] = true
	}
	reach := c.pkgReach(a.Main)
	for _, f := range c.SortedFuncs() {
		if isWrapperFn[f] || !reach[f] {
			continue
		}
		for _, call := range callsIn(f, func(k string, _ *ssa.Call) bool {
			for _, wk := range wrapperKeys {
				if k == wk {
					return true
				}
			}
			return false
		}) {
			construct := fmt.Sprintf("%s:exit-on-error(%s)", f.Name(), shortKey(calleeKey(&call.Call)))
			// in the CLI the error must lead to a non-zero exit; a plain return would report success
			okh, detail := checkCallErrHandled(call, f.Signature.Results().Len() > 0, nil)
			r.Check(okh, "C08-R3", construct, c.InstrPos(call), detail, "processing error does not reach a non-zero exit status: "+detail)
		}
	}
	// R5: no unflushed buffer between the scan loop and the file: the writer handed to a
	// wrapper is an *os.File, or a buffering writer whose Flush result is checked on every
	// path from the successful wrapper call to the end of the command
	r.Floor("C08-R5", 2, "writer arguments at the CLI call sites (3 today)")
	for _, f := range c.SortedFuncs() {
		if !isWrapperFn[f] && !reach[f] {
			continue
		}
		for _, call := range callsIn(f, func(k string, _ *ssa.Call) bool {
			for _, wk := range wrapperKeys {
				if k == wk {
					return true
				}
			}
			return false
		}) {
			callee := call.Call.StaticCallee()
			if callee == nil {
				continue
			}
			for ai, prm := range callee.Params {
				it, ok := prm.Type().Underlying().(*types.Interface)
				if !ok || !hasMethod(it, "Write") || ai >= len(call.Call.Args) {
					continue
				}
				w := peel(call.Call.Args[ai])
				construct := fmt.Sprintf("%s:writer-of(%s)", f.Name(), shortKey(calleeKey(&call.Call)))
				if _, isParam := w.(*ssa.Parameter); isParam && isWrapperFn[f] {
					// a file-level wrapper handing its own writer on: judged at the wrapper's callers
					r.Trivial("C08-R5", construct, c.InstrPos(call), "the wrapper passes its own writer parameter on")
					continue
				}
				tn := w.Type().String()
				if tn == "*os.File" {
					r.OK("C08-R5", construct, c.InstrPos(call), "records are written straight to an *os.File: every write error surfaces at the write")
					continue
				}
				// a buffering writer: Flush must be called, checked, on every path to the normal end
				flushKey := "(" + tn + ").Flush"
				var tests []errTest
				for _, ev := range errorResults(call) {
					tests = append(tests, errTestsOf(ev)...)
				}
				okFlush := len(tests) > 0
				detail := "writer of type " + tn + " has no checked Flush"
				for _, t := range tests {
					q := &pathQuery{
						witness: func(i ssa.Instruction) bool {
							fc, ok := i.(*ssa.Call)
							if !ok || calleeKey(&fc.Call) != flushKey || len(fc.Call.Args) == 0 || peel(fc.Call.Args[0]) != w {
								return false
							}
							okh, _ := checkCallErrHandled(fc, f.Signature.Results().Len() > 0, nil)
							return okh
						},
						isEnd: func(i ssa.Instruction) (string, bool) {
							if _, ok := i.(*ssa.Return); ok {
								return "return", true
							}
							return "", false
						},
					}
					if ends := q.run(t.NilSucc, 0, false); len(ends) > 0 {
						okFlush = false
						detail = fmt.Sprintf("records go through a buffering writer (%s) and the command can end at %s without a Flush whose error is checked: a write fault that surfaces at the final flush is lost and the run reports success", tn, c.InstrPos(ends[0].Instr))
					}
				}
				r.Check(okFlush, "C08-R5", construct, c.InstrPos(call), "buffering writer flushed with its error checked on every path to the end of the command", detail)
			}
		}
	}
	// R6: a line cut short by a failing read is not completed and emitted
	parserStrictRule(c, r, "C08-R6")
	// R8: a gzip archive is verified before anything derived from it is written
	gzipVerifiedRule(c, r, sf, "C08-R8")
	// R7: ... nor is the unterminated fragment that bufio.Scanner delivers as a last token
	// after a failed read taken for a line
	failedReadFragmentRule(c, r, sf, "C08-R7")
	// also: go statements / deferred calls of the wrappers would lose the error
	for _, f := range c.SortedFuncs() {
		if !reach[f] {
			continue
		}
		allInstrs(f, func(i ssa.Instruction) {
			switch i.(type) {
			case *ssa.Go, *ssa.Defer:
				k := calleeKey(callCommonOf(i))
				for _, wk := range wrapperKeys {
					if k == wk {
						r.Bad("C08-R3", fmt.Sprintf("%s:async(%s)", f.Name(), shortKey(k)), c.InstrPos(i), "processing function started by go/defer: its error cannot reach the exit status")
					}
				}
			}
		})
	}
}

func shortKey(k string) string {
	k = strings.TrimPrefix(k, "invoke ")
	if i := strings.LastIndex(k, "/"); i >= 0 {
		// keep leading "(*" if present
		pre := ""
		if strings.HasPrefix(k, "(*") {
			pre = "(*"
		} else if strings.HasPrefix(k, "(") {
			pre = "("
		}
		k = pre + k[i+1:]
	}
	return k
}

// writesWholeLine: "yes" when the call emits the record and its newline in one call.
func writesWholeLine(k string, call *ssa.Call) (string, string) {
	switch {
	case k == "fmt.Fprintln":
		return "yes", "fmt.Fprintln writes record and newline in one call"
	case k == "fmt.Fprintf":
		if len(call.Call.Args) > 1 {
			if f, ok := constString(call.Call.Args[1]); ok {
				if strings.HasSuffix(f, "\n") {
					return "yes", "Fprintf format ends in newline"
				}
				return "no", "Fprintf format does not end in a newline: record and terminator are written separately"
			}
		}
		return "undecided", "non-constant format"
	case k == "fmt.Fprint", k == "io.WriteString", strings.HasSuffix(k, ".Write"), strings.HasSuffix(k, ".WriteString"):
		// accept x + "\n" / append(x, '\n')
		var payload ssa.Value
		args := call.Call.Args
		if call.Call.IsInvoke() {
			if len(args) > 0 {
				payload = args[0]
			}
		} else if len(args) > 1 {
			payload = args[len(args)-1]
		}
		if payload != nil && endsWithNewline(payload, 0) {
			return "yes", "payload is record + newline"
		}
		return "no", "write call does not carry the line terminator: a failure can leave a record without newline followed by more output"
	case k == "(*bufio.Writer).Flush":
		return "yes", "flush"
	}
	return "undecided", "unrecognised write form " + k
}

func endsWithNewline(v ssa.Value, depth int) bool {
	if depth > 6 {
		return false
	}
	v = peel(v)
	if s, ok := constString(v); ok {
		return strings.HasSuffix(s, "\n")
	}
	switch x := v.(type) {
	case *ssa.BinOp:
		if x.Op == token.ADD {
			return endsWithNewline(x.Y, depth+1)
		}
	case *ssa.Convert:
		return endsWithNewline(x.X, depth+1)
	case *ssa.Call:
		if calleeKey(&x.Call) == "builtin append" && len(x.Call.Args) == 2 {
			// append(x, '\n'...) : varargs slice of a 1-array holding const 10
			return sliceLastConstByte(x.Call.Args[1]) == 10
		}
	case *ssa.Slice:
		return false
	}
	return false
}

func sliceLastConstByte(v ssa.Value) int64 {
	sl, ok := v.(*ssa.Slice)
	if !ok {
		return -1
	}
	al, ok := sl.X.(*ssa.Alloc)
	if !ok {
		return -1
	}
	last := int64(-1)
	lastIdx := int64(-1)
	for _, r := range referrers(al) {
		if ia, ok := r.(*ssa.IndexAddr); ok {
			idx, _ := constInt(ia.Index)
			for _, rr := range referrers(ia) {
				if st, ok := rr.(*ssa.Store); ok {
					if n, ok := constInt(st.Val); ok && idx >= lastIdx {
						last, lastIdx = n, idx
					}
				}
			}
		}
	}
	return last
}

// failedReadFragmentRule (C08-R7): after a read error bufio.Scanner calls the split
// function with atEOF=true, so the unterminated rest of the buffer comes out as one more
// token - possibly a complete-looking JSON object that the fault-free run would never
// emit as a line of its own. The scan loop must therefore know about the failed read
// before it processes a token: the scanner reads through a package type whose Read
// records a non-EOF error in a field, and every iteration tests that field (returning
// the error) before the token reaches the redactor.
func failedReadFragmentRule(c *Ctx, r *Report, sf *ssa.Function, rule string) {
	r.Floor(rule, 1, "scanner source")
	var ns *ssa.Call
	for _, call := range callsIn(sf, func(k string, _ *ssa.Call) bool { return k == "bufio.NewScanner" }) {
		ns = call
	}
	if ns == nil {
		r.Undecided(rule, sf.Name()+":scanner", c.Pos(sf.Pos()), "no bufio.NewScanner call in the stream function")
		return
	}
	construct := sf.Name() + ":no-record-from-the-token-after-a-failed-read"
	src := peel(ns.Call.Args[0])
	pt, ok := src.Type().Underlying().(*types.Pointer)
	var named *types.Named
	if ok {
		named, _ = pt.Elem().(*types.Named)
	}
	if named == nil || named.Obj().Pkg() == nil || named.Obj().Pkg().Path() != c.Pkg.PkgPath {
		r.Bad(rule, construct, c.InstrPos(ns), "the scanner reads straight from the input: after a failed read (I/O error, truncated or corrupt gzip stream) the unterminated rest of the buffer is delivered as a last token and, if it happens to parse, is written as a record although the fault-free output has no such line")
		return
	}
	// the tracker's Read records the error of the underlying Read in a field
	var readFn *ssa.Function
	for _, f := range c.SortedFuncs() {
		if f.Signature.Recv() != nil && f.Name() == "Read" && types.Identical(f.Signature.Recv().Type(), src.Type()) {
			readFn = f
		}
	}
	var errField *types.Var
	if readFn != nil {
		allInstrs(readFn, func(i ssa.Instruction) {
			st, ok := i.(*ssa.Store)
			if !ok || !isErrorType(st.Val.Type()) {
				return
			}
			if fa, ok := st.Addr.(*ssa.FieldAddr); ok && fa.X == ssa.Value(readFn.Params[0]) {
				if ex, ok := st.Val.(*ssa.Extract); ok {
					if rc, ok := ex.Tuple.(*ssa.Call); ok && rc.Call.IsInvoke() && rc.Call.Method.Name() == "Read" {
						_, errField = fieldOf(fa)
					}
				}
			}
		})
	}
	if errField == nil {
		r.Bad(rule, construct, c.InstrPos(ns), "the scanner's source type "+named.Obj().Name()+" does not record the error of the underlying Read in a field")
		return
	}
	// every call of the redactor in the loop is dominated by `tracker.err == nil`
	okAll, n := true, 0
	for _, rc := range callsIn(sf, func(k string, _ *ssa.Call) bool { return k == c.pkgFn("RedactMongoLog") }) {
		n++
		guarded := false
		for _, f := range allFacts(rc.Block()) {
			v, neq, isNilCmp := nilCompare(f.Cond)
			if !isNilCmp || neq == f.Pol {
				continue // not a nil comparison, or it establishes non-nil
			}
			if ld, ok := v.(*ssa.UnOp); ok {
				if fa, ok := ld.X.(*ssa.FieldAddr); ok {
					if _, fv := fieldOf(fa); fv == errField && peel(fa.X) == src {
						guarded = true
					}
				}
			}
		}
		if !guarded {
			okAll = false
		}
	}
	r.Check(okAll && n > 0, rule, construct, c.InstrPos(ns),
		"the scanner reads through "+named.Obj().Name()+", whose Read records a failed read, and every token reaches the redactor only after that record was tested nil",
		"a token can reach the redactor without the recorded read error having been tested: the fragment after a failed read may be emitted")
}

// gzipVerifiedRule (C08-R8): gzip checks its CRC-32 and length only at the end of a
// member, and a flipped bit usually still inflates - to different text. A line of that
// text is redacted as whatever it now looks like (a renamed key is no longer a zone key)
// and written long before the checksum error surfaces. So that what is written before
// the failure is a prefix of the fault-free output, the archive has to be read through
// once (to io.Discard) before the streaming pass starts.
func gzipVerifiedRule(c *Ctx, r *Report, sf *ssa.Function, rule string) {
	r.Floor(rule, 1, "gzip streaming sites")
	// verifiers: package functions that build a gzip reader and drain it, returning the error
	verifiers := map[*ssa.Function]bool{}
	for _, f := range c.SortedFuncs() {
		if f == sf || hasCallTo(f, fnFullName(sf)) {
			continue
		}
		var gz *ssa.Call
		for _, call := range callsIn(f, func(k string, _ *ssa.Call) bool { return k == "compress/gzip.NewReader" }) {
			gz = call
		}
		if gz == nil {
			continue
		}
		rd := extractOf(gz, 0)
		drains := false
		for _, call := range callsIn(f, func(k string, _ *ssa.Call) bool { return k == "io.Copy" || k == "io.ReadAll" }) {
			for _, a := range call.Call.Args {
				if rd != nil && derivesFrom(a, rd, 0) {
					if okh, _ := checkCallErrHandled(call, true, nil); okh {
						drains = true
					}
				}
			}
		}
		if drains {
			verifiers[f] = true
		}
	}
	// ... and functions that hand the job to such a function and pass its error on
	for changed := true; changed; {
		changed = false
		for _, f := range c.SortedFuncs() {
			if verifiers[f] || f == sf || hasCallTo(f, fnFullName(sf)) {
				continue
			}
			for _, vc := range callsIn(f, func(k string, cc *ssa.Call) bool { return verifiers[cc.Call.StaticCallee()] }) {
				if okh, _ := checkCallErrHandled(vc, true, nil); okh {
					verifiers[f] = true
					changed = true
				}
			}
		}
	}
	n := 0
	seen := map[*ssa.Function]bool{}
	for _, sc := range c.callersOf(sf) {
		w := sc.Parent()
		if seen[w] {
			continue
		}
		for _, gz := range callsIn(w, func(k string, _ *ssa.Call) bool { return k == "compress/gzip.NewReader" }) {
			seen[w] = true
			n++
			okV := false
			for _, vc := range callsIn(w, func(k string, cc *ssa.Call) bool { return verifiers[cc.Call.StaticCallee()] }) {
				dom := vc.Block().Dominates(gz.Block()) && (vc.Block() != gz.Block() || instrIndex(vc) < instrIndex(gz))
				if okh, _ := checkCallErrHandled(vc, true, nil); okh && dom {
					okV = true
				}
			}
			r.Check(okV, rule, w.Name()+":gzip-verified-before-streaming", c.InstrPos(gz),
				"the archive is read through once, with its error returned, before the streaming pass: a corrupt or truncated archive is reported before any record derived from it is written",
				"records are written while the archive is still being inflated and its checksum is only seen at the end: a corrupt archive (one flipped bit) makes the tool write lines redacted as something they are not - possibly unredacted - before it reports the failure")
		}
	}
	if n == 0 {
		r.Trivial(rule, "no-gzip-streaming", "-", "no gzip reader is handed to the scan loop")
	}
}

// failedWriteRollback: on the err != nil branch of the record write a call that reaches
// (*os.File).Truncate receives a value computed from the write's byte count - the partial
// line is cut off again where the output is a file. (A pipe cannot be rolled back; its reader
// is gone when a write to it fails.)
func failedWriteRollback(c *Ctx, call *ssa.Call) (bool, string) {
	n := extractOf(call, 0)
	if n == nil {
		return false, "the byte count of the write is discarded, so a partial line cannot be rolled back"
	}
	var region []*ssa.BasicBlock
	for _, ev := range errorResults(call) {
		for _, t := range errTestsOf(ev) {
			if t.NonNilSucc == nil {
				continue
			}
			for _, b := range call.Parent().Blocks {
				if t.NonNilSucc.Dominates(b) {
					region = append(region, b)
				}
			}
		}
	}
	if len(region) == 0 {
		return false, "no err != nil branch after the write"
	}
	truncates := func(f *ssa.Function) bool {
		for g := range c.pkgReach(f) {
			if hasCallTo(g, "(*os.File).Truncate") {
				return true
			}
		}
		return false
	}
	for _, b := range region {
		for _, in := range b.Instrs {
			cc, ok := in.(*ssa.Call)
			if !ok {
				continue
			}
			dep := false
			for _, a := range cc.Call.Args {
				if valueDependsOn(a, n, 0) {
					dep = true
				}
			}
			if !dep {
				continue
			}
			if calleeKey(&cc.Call) == "(*os.File).Truncate" {
				if pr := truncateProblems(c, call.Parent()); pr != "" {
					return false, pr
				}
				return true, "the failure branch truncates the file by the bytes of the partial line"
			}
			if g := c.staticPkgCallee(&cc.Call); g != nil && truncates(g) {
				for h := range c.pkgReach(g) {
					if pr := truncateProblems(c, h); pr != "" {
						return false, "the failure branch calls " + g.Name() + "(…, n), but " + pr
					}
				}
				return true, "the failure branch calls " + g.Name() + "(…, n), which reaches (*os.File).Truncate with the offset minus the count, whenever the offset covers the count"
			}
		}
	}
	return false, "the failure branch does not cut the partial line off again (no call reaching (*os.File).Truncate with the write's byte count)"
}

// truncateProblems: in fn, every (*os.File).Truncate call that cuts a partial line off must
// (a) be given exactly `current offset - count` - the offset read with Seek(0, io.SeekCurrent),
// the count without further arithmetic - and (b) happen whenever the offset covers the count:
// a guard comparing the two may exclude `offset < count` only. `offset > count` (or `!=`) leaves
// the torn line in place exactly when it is the first thing in the file.
func truncateProblems(c *Ctx, fn *ssa.Function) string {
	problem := ""
	dependsOnSeek := func(v ssa.Value) bool {
		found := false
		var walk func(v ssa.Value, d int)
		walk = func(v ssa.Value, d int) {
			if found || d > 8 {
				return
			}
			if ex, ok := v.(*ssa.Extract); ok {
				if call, ok := ex.Tuple.(*ssa.Call); ok && calleeKey(&call.Call) == "(*os.File).Seek" {
					found = true
					return
				}
			}
			if in, ok := v.(ssa.Instruction); ok {
				for _, op := range in.Operands(nil) {
					if *op != nil {
						walk(*op, d+1)
					}
				}
			}
		}
		walk(v, 0)
		return found
	}
	bare := func(v ssa.Value) ssa.Value {
		for {
			v = peel(v)
			switch x := v.(type) {
			case *ssa.Convert:
				v = x.X
				continue
			case *ssa.ChangeType:
				v = x.X
				continue
			}
			return v
		}
	}
	allInstrs(fn, func(i ssa.Instruction) {
		call, ok := i.(*ssa.Call)
		if !ok || calleeKey(&call.Call) != "(*os.File).Truncate" || len(call.Call.Args) != 2 || problem != "" {
			return
		}
		arg := peel(call.Call.Args[1])
		sub, ok := arg.(*ssa.BinOp)
		if !ok || sub.Op != token.SUB {
			if dependsOnSeek(arg) {
				problem = "the new length handed to Truncate at " + c.InstrPos(i) + " is not `current offset - count`"
			}
			return // a truncation to a constant length etc. is not the rollback
		}
		offV, cntV := bare(sub.X), bare(sub.Y)
		if ex, isEx := offV.(*ssa.Extract); !isEx || ex.Index != 0 || !dependsOnSeek(offV) {
			problem = "the new length handed to Truncate at " + c.InstrPos(i) + " is not the offset reported by Seek minus the count (extra arithmetic on the offset)"
			return
		}
		switch cntV.(type) {
		case *ssa.Parameter, *ssa.Extract:
		default:
			problem = "the new length handed to Truncate at " + c.InstrPos(i) + " subtracts something else than the byte count of the failed write (extra arithmetic on the count)"
			return
		}
		for _, f := range allFacts(call.Block()) {
			bo, ok := f.Cond.(*ssa.BinOp)
			if !ok {
				continue
			}
			x, y := bare(bo.X), bare(bo.Y)
			op := bo.Op
			// the count against a constant: the truncation must happen for every count >= 1
			{
				cx, cy, cop := x, y, op
				if _, isC := cx.(*ssa.Const); isC {
					cx, cy = cy, cx
					switch cop {
					case token.LSS:
						cop = token.GTR
					case token.GTR:
						cop = token.LSS
					case token.LEQ:
						cop = token.GEQ
					case token.GEQ:
						cop = token.LEQ
					}
				}
				if n, isC := constInt(cy); isC && cx == cntV {
					if !f.Pol {
						switch cop {
						case token.LSS:
							cop = token.GEQ
						case token.GEQ:
							cop = token.LSS
						case token.GTR:
							cop = token.LEQ
						case token.LEQ:
							cop = token.GTR
						case token.EQL:
							cop = token.NEQ
						case token.NEQ:
							cop = token.EQL
						}
					}
					excludesOne := false
					switch cop {
					case token.GTR:
						excludesOne = n >= 1
					case token.GEQ:
						excludesOne = n >= 2
					case token.EQL:
						excludesOne = n != 1
					case token.NEQ:
						excludesOne = n == 1
					case token.LSS:
						excludesOne = n <= 1
					case token.LEQ:
						excludesOne = n <= 0
					}
					if excludesOne {
						problem = fmt.Sprintf("the truncation at %s happens only when count %s %d: a short write that got exactly one byte out leaves that byte (the opening brace of the next record) at the end of the file", c.InstrPos(i), cop, n)
					}
					continue
				}
			}
			switch {
			case x == offV && y == cntV:
			case x == cntV && y == offV:
				switch op {
				case token.LSS:
					op = token.GTR
				case token.GTR:
					op = token.LSS
				case token.LEQ:
					op = token.GEQ
				case token.GEQ:
					op = token.LEQ
				}
			default:
				continue
			}
			if !f.Pol {
				switch op {
				case token.LSS:
					op = token.GEQ
				case token.GEQ:
					op = token.LSS
				case token.GTR:
					op = token.LEQ
				case token.LEQ:
					op = token.GTR
				case token.EQL:
					op = token.NEQ
				case token.NEQ:
					op = token.EQL
				}
			}
			// the relation `offset op count` that holds where the truncation happens
			if op == token.GTR || op == token.NEQ || op == token.LSS {
				problem = fmt.Sprintf("the truncation at %s happens only when offset %s count: a partial line that is the first thing in the file (offset == count) is left in place", c.InstrPos(i), op)
			}
		}
	})
	return problem
}
