#!/usr/bin/env python3
"""Imports delivered seeded changes (<src>/<Cnn>.out/<X>/{patch.diff,demo*,meta.json}) into
/verif/seeded/<Cnn>_<X>/ with the meta.json layout used there. usage: seedimport.py <srcdir> [note]"""
import json, os, sys, shutil, glob
src = sys.argv[1]
note = sys.argv[2] if len(sys.argv) > 2 else ""
PEEKED = set((sys.argv[3].split(",") if len(sys.argv) > 3 else []))
ONLY = set((sys.argv[4].split(",") if len(sys.argv) > 4 else []))
V = os.path.dirname(os.path.abspath(__file__))
for d in sorted(glob.glob(os.path.join(src, "C??.out", "?"))):
    pid = os.path.basename(os.path.dirname(d))[:3]
    var = os.path.basename(d)
    if ONLY and pid not in ONLY:
        continue
    if not os.path.exists(os.path.join(d, "patch.diff")):
        print("skip (no patch)", d); continue
    dst = os.path.join(V, "seeded", "%s_%s" % (pid, var))
    if os.path.exists(dst):
        print("exists", dst); continue
    os.makedirs(dst)
    shutil.copy(os.path.join(d, "patch.diff"), dst)
    demo = None
    for n in ("demo_test.go", "demo.sh"):
        if os.path.exists(os.path.join(d, n)):
            shutil.copy(os.path.join(d, n), dst); demo = n
    m = {}
    try:
        m = json.load(open(os.path.join(d, "meta.json")))
    except Exception as e:
        print("meta unreadable", d, e)
    origin = "written by an independent sub-agent that was given only the property text and a scratch worktree of the repository" + (" (" + note + ")" if note else "")
    if pid in PEEKED:
        origin += "; this agent reported having read the summaries of earlier seeded changes of the same property under /verif/seeded (read-only) to avoid duplicating them"
    out = {"id": "%s_%s" % (pid, var), "property": pid, "breaks": m.get("summary", ""), "needs_to_manifest": m.get("needs", ""),
           "files": m.get("files", []), "origin": origin, "demonstration": demo, "agent_verified": m.get("verified", {})}
    json.dump(out, open(os.path.join(dst, "meta.json"), "w"), indent=1)
    print("imported", dst)
