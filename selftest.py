#!/usr/bin/env python3
"""Two-sided self-test of the checker (DESIGN.md section 5.4).

Each mutant is a small textual edit of /repo's working tree that still compiles
(and, with --tests, still passes the repository's test suite). The edit is applied,
the relevant property check is run (evidence goes to a scratch directory so the
committed evidence is untouched), the expected rule must fire, and the edit is
reverted with `git checkout`. Benign variants must stay silent.

usage: selftest.py [--tests] [--only SUBSTR] [--list]
"""
import json, os, subprocess, sys, tempfile, shutil, glob

REPO = "/repo"
VERIF = os.path.dirname(os.path.abspath(__file__))
ENV = dict(os.environ, GOFLAGS="-mod=mod", GOPROXY="off")
for k in ("GOWORK", "GOSUMDB", "GOTOOLCHAIN"):
    ENV.pop(k, None)

def sh(cmd, cwd=None):
    p = subprocess.run(cmd, shell=True, cwd=cwd, env=ENV, stdout=subprocess.PIPE, stderr=subprocess.STDOUT, text=True)
    return p.returncode, p.stdout

def load_mutants():
    ms = []
    for f in sorted(glob.glob(os.path.join(VERIF, "checker/testdata/mutants/*.json"))):
        for m in json.load(open(f)):
            m["_file"] = os.path.basename(f)
            ms.append(m)
    return ms

def apply(m):
    for e in m["edits"]:
        p = os.path.join(REPO, e["file"])
        s = open(p).read()
        if s.count(e["old"]) < 1:
            raise RuntimeError("mutant %s: anchor text not found in %s" % (m["name"], e["file"]))
        cnt = e.get("count", 1)
        s = s.replace(e["old"], e["new"], cnt)
        open(p, "w").write(s)

def revert():
    sh("git checkout -q -- . && git clean -fdq src", cwd=REPO)

def main():
    args = sys.argv[1:]
    run_tests = "--tests" in args
    only = None
    if "--only" in args:
        only = args[args.index("--only") + 1]
    ms = load_mutants()
    if "--list" in args:
        for m in ms:
            print(m["name"], m.get("expect"), m.get("kind", "mutant"))
        return 0
    rc, out = sh("git status --porcelain", cwd=REPO)
    if out.strip():
        print("refusing to run: /repo working tree is dirty:\n" + out)
        return 2
    sh("./run.sh C08 quick >/dev/null 2>&1", cwd=VERIF)  # make sure the checker is built
    ev = tempfile.mkdtemp(prefix="selftest_ev_")
    fails = 0
    results = []
    try:
        for m in ms:
            if only and only not in m["name"]:
                continue
            kind = m.get("kind", "mutant")
            try:
                apply(m)
                rc, out = sh("go build -o /dev/null ./src", cwd=REPO)
                if rc != 0:
                    print("FAIL %-45s does not compile:\n%s" % (m["name"], out[-400:]))
                    fails += 1
                    continue
                tests_ok = None
                if run_tests:
                    rc, out = sh("go test -vet=off -count=1 ./... 2>&1 | tail -3", cwd=REPO)
                    tests_ok = "ok" in out and "FAIL" not in out
                props = sorted(set(e.split("-")[0] for e in m.get("expect", [])) | set(m.get("props", [])))
                rc, out = sh("%s/bin/anonverif -prop %s -tier quick -repo %s -evidence %s -known %s/known_findings.json" % (VERIF, ",".join(props), REPO, ev, VERIF))
                fired = sorted(set(l.split()[1] for l in out.splitlines() if l.strip().startswith("VIOLATED")))
                if kind == "benign":
                    ok = rc == 0
                    msg = "silent" if ok else "FALSE ALARM: %s" % fired
                else:
                    missing = [e for e in m["expect"] if e not in fired]
                    ok = rc == 1 and not missing
                    msg = "fired %s" % fired if ok else "MISSED %s (fired %s, exit %d)" % (missing, fired, rc)
                t = "" if tests_ok is None else (" tests=pass" if tests_ok else " tests=FAIL")
                print("%s %-45s %s%s" % ("ok  " if ok else "FAIL", m["name"], msg, t))
                if not ok:
                    fails += 1
                    for l in out.splitlines():
                        if "VIOLATED" in l:
                            print("      " + l.strip()[:220])
                results.append(dict(name=m["name"], kind=kind, ok=ok, fired=fired, tests_pass=tests_ok))
            finally:
                revert()
    finally:
        shutil.rmtree(ev, ignore_errors=True)
        revert()
    print("selftest: %d cases, %d failures" % (len(results), fails))
    json.dump(results, open(os.path.join(VERIF, "checker/testdata/selftest_result.json"), "w"), indent=1)
    return 1 if fails else 0

if __name__ == "__main__":
    sys.exit(main())
