// mutgen: enumerates first-order mutants of the non-test Go files of a directory.
//
//	mutgen list <srcdir>              -> JSON lines {id, file, line, kind, detail}
//	mutgen apply <srcdir> <id> <out>  -> writes the mutated file content of mutant <id> to <out>, prints the file name
//
// Mutation points are enumerated in a deterministic order (files sorted, AST pre-order), so an
// id names the same mutant as long as the sources do not change. Standard library only.
package main

import (
	"bytes"
	"encoding/json"
	"fmt"
	"go/ast"
	"go/format"
	"go/parser"
	"go/token"
	"os"
	"path/filepath"
	"sort"
	"strconv"
	"strings"
)

type mutant struct {
	ID     int    `json:"id"`
	File   string `json:"file"`
	Line   int    `json:"line"`
	Func   string `json:"func"`
	Kind   string `json:"kind"`
	Detail string `json:"detail"`
	apply  func()
	undo   func()
}

var binSwap = map[token.Token][]token.Token{
	token.EQL: {token.NEQ}, token.NEQ: {token.EQL},
	token.LSS: {token.LEQ, token.GEQ}, token.LEQ: {token.LSS, token.GTR},
	token.GTR: {token.GEQ, token.LEQ}, token.GEQ: {token.GTR, token.LSS},
	token.LAND: {token.LOR}, token.LOR: {token.LAND},
	token.ADD: {token.SUB}, token.SUB: {token.ADD},
}

var identSwap = map[string][]string{
	"Redactable": {"Exempt"}, "Exempt": {"Redactable"}, "FieldName": {"Redactable", "Exempt"}, "Namespace": {"Redactable"},
	"OperatorArray": {"Redactable"}, "Pipeline": {"Redactable"}, "OperatorMap": {"Redactable"}, "UserDocument": {"Redactable"},
	"true": {"false"}, "false": {"true"}, "nil": nil,
}

func main() {
	if len(os.Args) < 3 {
		fmt.Fprintln(os.Stderr, "usage: mutgen list <srcdir> | mutgen apply <srcdir> <id> <out>")
		os.Exit(2)
	}
	dir := os.Args[2]
	ents, err := os.ReadDir(dir)
	if err != nil {
		panic(err)
	}
	var names []string
	for _, e := range ents {
		n := e.Name()
		if strings.HasSuffix(n, ".go") && !strings.HasSuffix(n, "_test.go") && n != "anonymizer_test_params.go" {
			names = append(names, n)
		}
	}
	sort.Strings(names)
	fset := token.NewFileSet()
	var all []*mutant
	files := map[string]*ast.File{}
	for _, n := range names {
		f, err := parser.ParseFile(fset, filepath.Join(dir, n), nil, parser.ParseComments)
		if err != nil {
			panic(err)
		}
		files[n] = f
		all = append(all, enumerate(fset, n, f)...)
	}
	for i, m := range all {
		m.ID = i
	}
	switch os.Args[1] {
	case "list":
		enc := json.NewEncoder(os.Stdout)
		for _, m := range all {
			enc.Encode(m)
		}
	case "apply":
		id, _ := strconv.Atoi(os.Args[3])
		if id < 0 || id >= len(all) {
			fmt.Fprintln(os.Stderr, "no such mutant")
			os.Exit(2)
		}
		m := all[id]
		m.apply()
		var buf bytes.Buffer
		if err := format.Node(&buf, fset, files[m.File]); err != nil {
			panic(err)
		}
		if err := os.WriteFile(os.Args[4], buf.Bytes(), 0o644); err != nil {
			panic(err)
		}
		fmt.Println(m.File)
	}
}

func exprString(fset *token.FileSet, e ast.Node) string {
	var buf bytes.Buffer
	format.Node(&buf, fset, e)
	s := buf.String()
	s = strings.Join(strings.Fields(s), " ")
	if len(s) > 90 {
		s = s[:90] + "..."
	}
	return s
}

func enumerate(fset *token.FileSet, name string, f *ast.File) []*mutant {
	var out []*mutant
	curFunc := ""
	add := func(pos token.Pos, kind, detail string, apply func()) {
		out = append(out, &mutant{File: name, Line: fset.Position(pos).Line, Func: curFunc, Kind: kind, Detail: detail, apply: apply})
	}
	// statement lists: deletion of call statements, break<->continue
	var visitList func(list *[]ast.Stmt)
	visitList = func(list *[]ast.Stmt) {
		for i := range *list {
			i := i
			st := (*list)[i]
			switch x := st.(type) {
			case *ast.ExprStmt:
				if _, ok := x.X.(*ast.CallExpr); ok {
					add(st.Pos(), "delete-call-stmt", exprString(fset, st), func() { (*list)[i] = &ast.EmptyStmt{Semicolon: st.Pos(), Implicit: false} })
				}
			case *ast.BranchStmt:
				if x.Label == nil && (x.Tok == token.BREAK || x.Tok == token.CONTINUE) {
					nt := token.BREAK
					if x.Tok == token.BREAK {
						nt = token.CONTINUE
					}
					add(st.Pos(), "branch-swap", x.Tok.String()+" -> "+nt.String(), func() { x.Tok = nt })
				}
			case *ast.DeferStmt:
				add(st.Pos(), "delete-defer", exprString(fset, st), func() { (*list)[i] = &ast.EmptyStmt{Semicolon: st.Pos()} })
			case *ast.AssignStmt:
				// `x = f(...)` with plain assignment of a call whose result is an error only: drop (keeps compiling when x is used elsewhere)
				if x.Tok == token.ASSIGN && len(x.Lhs) == 1 && len(x.Rhs) == 1 {
					if _, isCall := x.Rhs[0].(*ast.CallExpr); isCall {
						add(st.Pos(), "delete-assign-call", exprString(fset, st), func() { (*list)[i] = &ast.EmptyStmt{Semicolon: st.Pos()} })
					}
				}
			case *ast.IfStmt:
				if x.Else == nil && x.Init == nil {
					// drop the whole guarded block (e.g. an error check)
					add(st.Pos(), "delete-if", "if "+exprString(fset, x.Cond)+" {...}", func() { (*list)[i] = &ast.EmptyStmt{Semicolon: st.Pos()} })
				}
			}
		}
	}
	ast.Inspect(f, func(n ast.Node) bool {
		switch x := n.(type) {
		case *ast.FuncDecl:
			curFunc = x.Name.Name
		case *ast.BlockStmt:
			visitList(&x.List)
		case *ast.CaseClause:
			visitList(&x.Body)
		case *ast.BinaryExpr:
			for _, nt := range binSwap[x.Op] {
				old, nt := x.Op, nt
				if (old == token.ADD || old == token.SUB) && isStringy(x) {
					continue
				}
				add(x.OpPos, "binop", fmt.Sprintf("%s : %s -> %s", exprString(fset, x), old, nt), func() { x.Op = nt })
			}
		case *ast.UnaryExpr:
			if x.Op == token.NOT {
				add(x.Pos(), "drop-not", exprString(fset, x), func() { x.Op = token.ADD; x.X = &ast.ParenExpr{X: x.X}; *x = ast.UnaryExpr{OpPos: x.OpPos, Op: token.NOT, X: &ast.UnaryExpr{Op: token.NOT, X: x.X}} })
			}
		case *ast.IfStmt:
			c := x.Cond
			add(x.Pos(), "negate-cond", "if "+exprString(fset, c), func() { x.Cond = &ast.UnaryExpr{Op: token.NOT, X: &ast.ParenExpr{X: c}} })
			if x.Else != nil {
				e := x.Else
				add(x.Pos(), "drop-else", "else of if "+exprString(fset, c), func() { x.Else = nil; _ = e })
			}
		case *ast.BasicLit:
			if x.Kind == token.INT {
				if v, err := strconv.ParseInt(x.Value, 0, 64); err == nil {
					old := x.Value
					add(x.Pos(), "int+1", fmt.Sprintf("%s -> %d", old, v+1), func() { x.Value = strconv.FormatInt(v+1, 10) })
					if v > 0 {
						add(x.Pos(), "int-1", fmt.Sprintf("%s -> %d", old, v-1), func() { x.Value = strconv.FormatInt(v-1, 10) })
					}
				}
			}
			if x.Kind == token.STRING && len(x.Value) > 2 && len(x.Value) < 40 && x.Value[0] == '"' {
				old := x.Value
				add(x.Pos(), "string", old+" -> "+old[:len(old)-1]+"_m\"", func() { x.Value = old[:len(old)-1] + "_m\"" })
			}
		case *ast.Ident:
			for _, ni := range identSwap[x.Name] {
				old, ni := x.Name, ni
				add(x.Pos(), "ident", old+" -> "+ni, func() { x.Name = ni })
			}
		case *ast.CallExpr:
			// swap two adjacent arguments that are plain identifiers / selectors (type errors are filtered by the compiler)
			for i := 0; i+1 < len(x.Args); i++ {
				i := i
				if simpleArg(x.Args[i]) && simpleArg(x.Args[i+1]) && exprString(fset, x.Args[i]) != exprString(fset, x.Args[i+1]) {
					add(x.Args[i].Pos(), "swap-args", exprString(fset, x)+" : args "+strconv.Itoa(i)+","+strconv.Itoa(i+1), func() { x.Args[i], x.Args[i+1] = x.Args[i+1], x.Args[i] })
				}
			}
		case *ast.ReturnStmt:
			// return <expr>, nil  where first result is an identifier param-like: skip (too noisy)
		}
		return true
	})
	return out
}

func simpleArg(e ast.Expr) bool {
	switch x := e.(type) {
	case *ast.Ident:
		return x.Name != "nil"
	case *ast.SelectorExpr:
		return simpleArg(x.X)
	}
	return false
}

func isStringy(b *ast.BinaryExpr) bool {
	s := false
	ast.Inspect(b, func(n ast.Node) bool {
		if l, ok := n.(*ast.BasicLit); ok && l.Kind == token.STRING {
			s = true
		}
		return true
	})
	return s
}
