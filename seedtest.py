#!/usr/bin/env python3
"""Regression over the seeded changes kept in /verif/seeded/<id>/.

For each one: `git -C /repo apply --3way patch.diff`, run every check (quick tier,
evidence to a scratch directory), undo with `git -C /repo checkout -- .`, and record
which properties / rules report it. Writes seeded/MATRIX.json and seeded/MATRIX.md.
Exit 1 if a seeded change is reported by no check, or not by the check of the property
it was written against (listed separately, as 'cross-only').

usage: seedtest.py [--only ID-substring] [--confirm]
  --confirm  additionally re-confirms each seed in a scratch worktree (applies, compiles,
             suite passes with it, demonstration fails with / passes without)
"""
import json, os, sys, glob, tempfile, shutil
sys.path.insert(0, os.path.dirname(os.path.abspath(__file__)))
import seedeval

VERIF = os.path.dirname(os.path.abspath(__file__))


def main():
    args = sys.argv[1:]
    only = args[args.index("--only") + 1] if "--only" in args else None
    do_confirm = "--confirm" in args
    rows = []
    missed, cross = [], []
    seedeval.sh("./run.sh C08 quick >/dev/null 2>&1", cwd=VERIF)  # make sure the checker is built
    for d in sorted(glob.glob(os.path.join(VERIF, "seeded", "C*_*"))):
        sid = os.path.basename(d)
        if only and only not in sid:
            continue
        meta = json.load(open(os.path.join(d, "meta.json")))
        row = {"id": sid, "property": meta["property"]}
        if do_confirm:
            conf = seedeval.confirm(d)
            row["confirmed"] = {k: conf.get(k) for k in ("applies", "compiles", "suite_passes_with_change", "demo_fails_with_change", "demo_passes_without_change")}
        chk = seedeval.check(d)
        row["caught_by_properties"] = chk.get("violated_properties", [])
        row["caught_by_rules"] = sorted(set(f.split()[1] for f in chk.get("fired", [])))
        row["applies_to_repo"] = chk.get("applies_to_repo", True)
        rows.append(row)
        own = meta["property"] in row["caught_by_properties"]
        status = "caught" if own else ("cross-only" if row["caught_by_properties"] else "MISSED")
        if not row["applies_to_repo"]:
            status = "STALE-PATCH"
        if status == "STALE-PATCH":
            print("%-8s %-10s the patch no longer applies to /repo's head (later fix commits touch the same lines)" % (sid, status))
            continue
        if status == "MISSED":
            missed.append(sid)
        if status == "cross-only":
            cross.append(sid)
        print("%-8s %-10s %s %s" % (sid, status, row["caught_by_properties"], row["caught_by_rules"]))
        # keep the per-seed meta current
        meta["caught_by_properties"] = row["caught_by_properties"]
        meta["caught_by_rules"] = row["caught_by_rules"]
        meta["checked_against_repo"] = "git -C /repo apply --3way patch.diff; bin/anonverif -prop all -tier quick; git -C /repo checkout -- ."
        json.dump(meta, open(os.path.join(d, "meta.json"), "w"), indent=1)
    if not only:
        json.dump(rows, open(os.path.join(VERIF, "seeded", "MATRIX.json"), "w"), indent=1)
        with open(os.path.join(VERIF, "seeded", "MATRIX.md"), "w") as f:
            f.write("| seeded change | written against | reported by (properties) | rules |\n|---|---|---|---|\n")
            for r in rows:
                f.write("| %s | %s | %s | %s |\n" % (r["id"], r["property"], ", ".join(r["caught_by_properties"]) or "-", ", ".join(r["caught_by_rules"]) or "-"))
    print("seedtest: %d seeded changes, %d missed %s, %d reported only by another property's check %s" % (len(rows), len(missed), missed, len(cross), cross))
    return 1 if missed else 0


if __name__ == "__main__":
    sys.exit(main())
